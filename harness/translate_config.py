#!/venv/bin/python
"""Python -> Lean FUNCTION translator, group `config`: the configuration readers of
src/bumpver/config.py (properties C18, C19).

Extends harness/translate_funcs.py (class `FuncTranslator`) to the Python that the configuration
layer is written in: dicts used as records (`raw_cfg['key']`, `.get`, `in`, item assignment,
mutation visible to the caller), dynamically typed dict values (`str | bool | None`, narrowed with
`isinstance` / `is None`), exceptions of any class (`Except Str α`, the class NAME is the error),
generators (`yield`), comprehensions, tuple-unpacking loop targets, loops that `return` from the
inside (auxiliary structurally recursive definitions), `with path.open(...)`, `pathlib` joins on the
project directory (the file system is a parameter), module level constants (inlined from the AST),
calls of other translated functions and of callees that stay parameters.

Supported subset, typing rules and every trusted primitive: harness/TRANSLATE_CONFIG.md.
Output: lean/BumpverVerif/Gen/F_configTypes.lean (enum / NamedTuple declarations generated from the
class definitions) and one Gen/F_<name>.lean per function of `FUNCS` (namespace BV.GenF).
Ties: lean/BumpverVerif/Proofs/Tie_<name>.lean, audit: lean/BumpverVerif/Audit/TiesH.lean.

Usage: /venv/bin/python harness/translate_config.py [--write] [--show]
"""
import ast
import os
import sys

HERE = os.path.dirname(os.path.abspath(__file__))
sys.path.insert(0, HERE)

import translate_funcs as tf  # noqa: E402
from translate_funcs import (  # noqa: E402
    Untranslatable, BOOL, INT, NAT, LIT, STR, NONE, OPT, LIST, TUP, REC, ENUM, OPAQUE,
    Var, lean_ident, lean_str, indent, _nl, _arm, is_intlike,
)

# ----------------------------------------------------------------------------------
# additional static types
# ----------------------------------------------------------------------------------
RAWVAL = ("rawval",)        # a scalar of the raw config dict: str | bool | None   (Lean `RawVal`)
FPS = ("fps",)              # Dict[str, List[str]], ordered                        (Lean `FilePatterns`)
EMPTYDICT = ("emptydict",)  # the literal `{}`
INI = ("ini",)              # a `_ConfigParser` after `read_file`                   (Lean `IniDoc`)
PROJDIR = ("projdir",)      # the project directory as a `pathlib.Path`             (Lean `Py.ProjDir`)
RELPATH = ("relpath",)      # `project_dir / name`: a file of the project directory (Lean `Str`, the name)
MSG = ("msg",)              # an exception message (f-string); erased
UNIT = ("unit",)
DROPPED = ("dropped",)      # a parameter the translation does not look at


def DREC(name):             # a dict used as a record (schema in DRECS)
    return ("drec", name)


def DICTOF(t):              # Dict[str, T] as an ordered association list
    return ("dictof", t)


def FILE(mode, lean):       # a file object bound by `with p.open(mode=...) as f`
    return ("file", mode, lean)


A = OPAQUE("α")

_tf_lean_str = lean_str


def lean_chars(s):
    """a Lean `Str` as an explicit list of character literals"""
    def ch(c):
        o = ord(c)
        if c == "\\":
            return "'\\\\'"
        if c == "'":
            return "'\\''"
        if c == "\n":
            return "'\\n'"
        if c == "\t":
            return "'\\t'"
        if c == "\r":
            return "'\\r'"
        if 32 <= o < 127:
            return "'%s'" % c
        return "'\\u{%x}'" % o
    return "[" + ", ".join(ch(c) for c in s) + "]"


def lean_str(s):  # noqa: F811
    """a Lean `Str` literal: `"…".toList` for short texts (names, keys), an explicit character list for
    long ones — the kernel evaluates `"…".toList` on a long literal in quadratic time, and the ties
    compare these constants with the generated tables by kernel evaluation"""
    if len(s) <= 24:
        return _tf_lean_str(s)
    return "(%s : Str)" % lean_chars(s)


# dicts used as records.  `keys`: literal key -> (Lean field of type `Option T`, T);
# `rest`: every other key lives in the association list `<rest field>` with values of that type.
DRECS = {
    # bumpver's RawConfig: scalar options + the 'file_patterns' sub dict   (model: TomlSection)
    "RawDict": dict(lean="TomlSection", keys={"file_patterns": ("filePatterns", FPS)},
                    rest=("opts", RAWVAL)),
    # toml.load(...): only the keys bumpver looks at
    "TomlTool": dict(lean="Py.TomlTool", keys={"bumpver": ("bumpver", DREC("RawDict"))}, rest=None),
    "TomlFull": dict(lean="Py.TomlFull",
                     keys={"tool": ("tool", DREC("TomlTool")), "bumpver": ("bumpver", DREC("RawDict")),
                           "pycalver": ("pycalver", DREC("RawDict"))}, rest=None),
}

# NamedTuples of this group.  `Config` and `ProjectContext` are GENERATED structures (all fields of
# the class definition, in order); the field types come from `ann` (annotation text) unless `over`.
MYRECORDS = {
    "Config": dict(
        lean="Cfg.Config α", leanname="Config", params="(α : Type)", source=("config.py", "Config"),
        ann={"str": STR, "bool": BOOL, "TagScope": ENUM("TagScope"), "PatternsByFile": A},
        # NamedTuple fields are not checked at run time: `commit`, `tag`, `push` hold whatever the raw
        # dict holds (a TOML `commit = "true"` stays a str); their readers test truthiness.
        over={"commit": RAWVAL, "tag": RAWVAL, "push": RAWVAL}),
    "ProjectContext": dict(
        lean="Cfg.ProjectContext", leanname="ProjectContext", params="",
        source=("config.py", "ProjectContext"),
        ann={"str": STR, "typ.Optional[str]": OPT(STR)},
        over={"path": PROJDIR, "config_filepath": RELPATH}),
}

MYCONSTRUCTORS = {"Config": "Config", "ProjectContext": "ProjectContext"}

# bare annotations `name: T` that fix the type of a local
DECLARED = {"RawConfig": DREC("RawDict")}

EXC_CLASSES = {"ValueError", "TypeError", "KeyError", "RuntimeError", "AttributeError", "IndexError"}

# ----------------------------------------------------------------------------------
# the signature table
# ----------------------------------------------------------------------------------
RAW = DREC("RawDict")
# callees that stay PARAMETERS: python name -> (lean parameter, argument types, result type, can raise)
X_VALIDATE = ("validate_version", [STR, STR, BOOL], UNIT, True)
X_PEP440 = ("to_pep440", [STR], STR, False)
X_COMPILE = ("compile_file_patterns", [RAW, BOOL], A, True)
X_PATHEX = ("path_exists", [STR], BOOL, False)

FUNCS = [
    dict(name="parseCfgStrings", file="config.py", func="_parse_cfg_strings",
         params=[("raw_cfg", RAW), ("key", STR), ("default", STR)], ret=STR, state=["raw_cfg"]),
    dict(name="parseConfig", file="config.py", func="_parse_config",
         params=[("raw_cfg", RAW)], ret=REC("Config"), implicit="{α : Type}",
         extern_funcs={"_validate_version_with_pattern": X_VALIDATE, "version.to_pep440": X_PEP440,
                       "_compile_file_patterns": X_COMPILE, "pl.Path(_).exists": X_PATHEX}),
    dict(name="setRawConfigDefaults", file="config.py", func="_set_raw_config_defaults",
         params=[("raw_cfg", RAW)], ret=NONE, state=["raw_cfg"]),
    dict(name="parseCfgFilePatterns", file="config.py", func="_parse_cfg_file_patterns",
         params=[("cfg_parser", INI)], ret=LIST(TUP(STR, LIST(STR))), generator=True),
    dict(name="parseCfg", file="config.py", func="_parse_cfg",
         params=[("cfg_buffer", DROPPED)], ret=RAW,
         externs={"_ConfigParser()": ("parser", INI)}),
    dict(name="parseToml", file="config.py", func="_parse_toml",
         params=[("cfg_buffer", DROPPED)], ret=RAW,
         externs={"toml.load(cfg_buffer)": ("loaded", DREC("TomlFull"))}),
    dict(name="parseCurrentVersionDefaultPattern", file="config.py",
         func="_parse_current_version_default_pattern",
         params=[("raw_cfg", RAW), ("raw_cfg_text", STR)], ret=STR),
    dict(name="pickConfigFile", file="config.py", func="_pick_config_filepath",
         params=[("path", PROJDIR)], ret=RELPATH, fs=True),
    dict(name="parseConfigAndFormat", file="config.py", func="_parse_config_and_format",
         params=[("path", PROJDIR)], ret=TUP(RELPATH, STR, STR), fs=True),
    dict(name="initProjectCtx", file="config.py", func="init_project_ctx",
         params=[("project_path", PROJDIR)], ret=REC("ProjectContext"), fs=True),
    dict(name="defaultConfig", file="config.py", func="default_config",
         params=[("ctx", REC("ProjectContext"))], ret=STR, fs=True,
         externs={"_initial_version()": ("initial_version", STR)}),
    dict(name="writeContent", file="config.py", func="write_content",
         params=[("ctx", REC("ProjectContext"))], ret=NONE, fs=True, state=["fs"],
         externs={"_initial_version()": ("initial_version", STR)}),
]

TYPES_FILE = "F_configTypes.lean"
TYPES_MODULE = "BumpverVerif.Gen.F_configTypes"


# ----------------------------------------------------------------------------------
# module level constants, evaluated from the AST (never imported)
# ----------------------------------------------------------------------------------
class ModConsts:
    def __init__(self, sources, fname, fn):
        self.src = sources
        self.fname = fname
        self.fn = fn
        _, tree = sources.module(fname)
        self.assigns = {}
        for node in tree.body:
            if isinstance(node, ast.Assign) and len(node.targets) == 1 and isinstance(node.targets[0], ast.Name):
                self.assigns.setdefault(node.targets[0].id, []).append(node.value)
            elif isinstance(node, ast.AnnAssign) and isinstance(node.target, ast.Name) and node.value is not None:
                self.assigns.setdefault(node.target.id, []).append(node.value)

    def has(self, name):
        return name in self.assigns

    def node(self, name):
        vals = self.assigns[name]
        if len(vals) != 1:
            raise Untranslatable(self.fn, vals[1], "module constant `%s` is assigned more than once" % name)
        return vals[0]


# ----------------------------------------------------------------------------------
# the translator
# ----------------------------------------------------------------------------------
class CfgTranslator(tf.FuncTranslator):
    def __init__(self, spec, sources, group):
        tf.FuncTranslator.__init__(self, spec, sources)
        self.group = group          # python function name -> spec (translated callees)
        self.aux = []               # auxiliary loop definitions
        self.nloops = 0
        self.declared = {}          # bare annotations `name: T`
        self.errs = 0               # number of `.error` alternatives emitted so far
        self.join_depth = 0         # > 0 while translating a branch whose continuation is a JOIN
        self.consts = ModConsts(sources, spec["file"], self.fn)
        self.const_defs = {}        # long module constants: python name -> generated definition
        self.closed_terms = set()   # Lean texts of closed literal tables
        self.raises = True

    # -- type environment ---------------------------------------------------------------------
    def record(self, name):
        if name not in MYRECORDS:
            return tf.FuncTranslator.record(self, name)
        if name in self.records:
            return self.records[name]
        d = MYRECORDS[name]
        fname, cls = d["source"]
        pyfields = self.src.class_fields(fname, cls, self.fn)
        fields = []
        for f, ann in pyfields:
            if f in d.get("over", {}):
                t = d["over"][f]
            elif ann in d["ann"]:
                t = d["ann"][ann]
            else:
                self.bad(None, "field %s.%s: annotation %s has no type mapping" % (cls, f, ann))
            fields.append((f, lean_ident(f), t))
        r = dict(d)
        r["fields"] = fields
        r["pyorder"] = [f for f, _ in pyfields]
        self.records[name] = r
        return r

    def lean_type(self, t):
        k = t[0]
        if k == "rawval":
            return "RawVal"
        if k == "drec":
            return DRECS[t[1]]["lean"]
        if k == "fps":
            return "FilePatterns"
        if k == "dictof":
            return "List (Str × %s)" % self.paren_type(t[1])
        if k == "ini":
            return "IniDoc"
        if k == "relpath":
            return "Str"
        if k == "projdir":
            return "Py.ProjDir"
        if k == "unit":
            return "Unit"
        if k == "rec" and t[1] in MYRECORDS:
            return MYRECORDS[t[1]]["lean"]
        if k == "enum":
            return "Cfg." + t[1]
        if k in ("msg", "file", "emptydict", "dropped"):
            self.bad(None, "a value of type %r cannot be passed around" % (t,))
        return tf.FuncTranslator.lean_type(self, t)

    def paren_type(self, t):
        s = self.lean_type(t)
        return "(%s)" % s if (" " in s and not s.startswith("(")) else s

    def unify(self, a, b):
        if a == b:
            return a
        for x, y in ((a, b), (b, a)):
            if x == RAWVAL and (y in (STR, BOOL, NONE, OPT(BOOL)) or y[0] == "enum"):
                return RAWVAL
            if x == EMPTYDICT and y[0] in ("drec", "fps", "dictof"):
                return y
            if x == DREC("RawDict") and y == DICTOF(STR):
                return x
            if x == FPS and y == DICTOF(LIST(STR)):
                return FPS
            if x == STR and y[0] == "enum":
                return STR
        return tf.FuncTranslator.unify(self, a, b)

    def coerce(self, lean, frm, to, node=None):
        if frm == to:
            return lean
        if to == RAWVAL:
            if frm == STR:
                return "(RawVal.str %s)" % lean
            if frm == BOOL:
                return "(RawVal.bool %s)" % lean
            if frm == NONE:
                return "RawVal.none"
            if frm == OPT(BOOL):
                return "(boolDefault %s)" % lean
            if frm[0] == "enum":
                return "(RawVal.str (Cfg.%s.value %s))" % (frm[1], lean)
        if to == STR and frm[0] == "enum":
            return "(Cfg.%s.value %s)" % (frm[1], lean)
        if to == STR and frm == RAWVAL:
            # an annotation (`-> str`, a NamedTuple field) is relied upon: a checked cast whose
            # failure is the pseudo class `!cast`; the ties prove it never happens
            if self.hoists is None:
                self.bad(node, "a dynamically typed value is used as `str` in a position where no check can be placed")
            v = self.fresh("s")
            self.hoists.append((v, "(Py.castStr %s)" % lean, "exc", None))
            return v
        if to == STR and frm == RELPATH:
            return lean
        if frm == EMPTYDICT:
            if to == DREC("RawDict"):
                return "({ opts := [], filePatterns := none } : TomlSection)"
            if to == FPS or to[0] == "dictof":
                return "([] : %s)" % self.lean_type(to)
        if frm == DICTOF(STR) and to == DREC("RawDict"):
            # Dict[str, str] used as a RawConfig: the values become dynamically typed
            return ("({ opts := List.map (fun (kv : Str × Str) => (kv.1, RawVal.str kv.2)) %s, "
                    "filePatterns := none } : TomlSection)" % lean)
        if frm == DICTOF(LIST(STR)) and to == FPS:
            return lean
        return tf.FuncTranslator.coerce(self, lean, frm, to, node)

    # -- errors ------------------------------------------------------------------------------------
    def err(self, cls):
        self.errs += 1
        return "(Except.error %s)" % lean_str(cls)

    def hoist_opt(self, base, lean, cls):
        """bind the value of an Option-valued Lean term; `none` raises `cls`"""
        if self.hoists is None:
            self.bad(None, "an expression that can raise %s stands where only a total expression is supported" % cls)
        v = self.fresh(base)
        self.hoists.append((v, lean, "opt", cls))
        return v

    def hoist_exc(self, base, lean):
        if self.hoists is None:
            self.bad(None, "an expression that can raise stands where only a total expression is supported")
        v = self.fresh(base)
        self.hoists.append((v, lean, "exc", None))
        return v

    def with_hoists(self, compute, cont):
        saved = self.hoists
        self.hoists = []
        try:
            val = compute()
            hs = self.hoists
        finally:
            self.hoists = saved
        body = cont(val)
        for h in reversed(hs):
            if len(h) == 2:          # an Option-valued hoist of the base class: ValueError
                h = (h[0], h[1], "opt", "ValueError")
            name, e, kind, cls = h
            self.errs += 1
            if kind == "opt":
                body = "(match %s with\n  | none => (Except.error %s)\n  | some %s => %s)" % (e, lean_str(cls), name, _arm(body))
            else:
                body = "(match %s with\n  | Except.error err => (Except.error err)\n  | Except.ok %s => %s)" % (e, name, _arm(body))
        return body

    def raises_in(self, node, env):
        """does evaluating `node` (as a test) need a hoist, i.e. can it raise?"""
        if isinstance(node, ast.BoolOp):
            return any(self.raises_in(v, env) for v in node.values)
        if isinstance(node, ast.UnaryOp) and isinstance(node.op, ast.Not):
            return self.raises_in(node.operand, env)
        saved_h, saved_c, saved_e = self.hoists, self.counter, self.errs
        self.hoists = []
        try:
            self.truthy(node, env)
            n = len(self.hoists)
        except Untranslatable:
            n = 1           # not evaluable as one total expression: split it (the split reports real errors)
        finally:
            self.hoists, self.counter, self.errs = saved_h, saved_c, saved_e
        return n > 0

    # -- constants of the module --------------------------------------------------------------------
    def const_value(self, node, depth=0):
        """(lean, type) of a module level constant expression"""
        if depth > 8:
            self.bad(node, "module constants nested too deeply")
        if isinstance(node, ast.Constant):
            v = node.value
            if isinstance(v, bytes):
                try:
                    return lean_str(v.decode("ascii")), STR
                except UnicodeDecodeError:
                    self.bad(node, "non-ASCII bytes literal")
            if isinstance(v, str):
                return lean_str(v), STR
            return tf.FuncTranslator.expr(self, node, {})
        if (isinstance(node, ast.Call) and isinstance(node.func, ast.Attribute) and node.func.attr == "lstrip"
                and not node.args and not node.keywords and isinstance(node.func.value, ast.Constant)
                and isinstance(node.func.value.value, str)):
            return lean_str(node.func.value.value.lstrip()), STR
        if isinstance(node, ast.Name):
            if not self.consts.has(node.id):
                self.bad(node, "unknown name `%s`" % node.id)
            v, t = self.const_value(self.consts.node(node.id), depth + 1)
            if t == STR and len(v) > 80:
                # a long text constant becomes a generated definition of its own (kernel-friendly:
                # the function body then mentions a name, not a 400 character literal)
                cname = "%s.C_%s" % (self.spec["name"], node.id)
                self.const_defs[node.id] = "/-- `%s.%s` -/\ndef %s : Str := %s\n" % (
                    self.spec["file"][:-3], node.id, cname, v)
                return cname, STR
            return v, t
        if isinstance(node, ast.Attribute) and isinstance(node.value, ast.Name) and node.value.id in tf.ENUMS:
            members = self.enum(node.value.id)
            if node.attr not in [m for m, _ in members]:
                self.bad(node, "enum %s has no member %s" % (node.value.id, node.attr))
            return "Cfg.%s.%s" % (node.value.id, lean_ident(node.attr)), ENUM(node.value.id)
        if isinstance(node, ast.Attribute) and node.attr == "value":
            v, t = self.const_value(node.value, depth + 1)
            if t[0] == "enum":
                return "(Cfg.%s.value %s)" % (t[1], v), STR
        if isinstance(node, (ast.List, ast.Tuple)):
            parts = [self.const_value(e, depth + 1) for e in node.elts]
            return self.list_of(parts, node)
        if isinstance(node, ast.Dict):
            return self.dict_literal(node, lambda e: self.const_value(e, depth + 1))
        self.bad(node, "module constant of an unsupported form")

    def list_of(self, parts, node):
        if not parts:
            return "[]", LIST(None)
        t = parts[0][1]
        for _, t2 in parts[1:]:
            t = self.unify(t, t2)
            if t is None:
                self.bad(node, "list with elements of different types")
        if t == LIT:
            t = INT
        return "[" + ", ".join(self.coerce(p, pt, t, node) for p, pt in parts) + "]", LIST(t)

    def dict_literal(self, node, ev):
        if not node.keys:
            return "[]", EMPTYDICT
        items = []
        t = None
        seen = set()
        for kn, vn in zip(node.keys, node.values):
            if not (isinstance(kn, ast.Constant) and isinstance(kn.value, str)):
                self.bad(node, "dict literals need constant str keys")
            if kn.value in seen:
                self.bad(node, "duplicate key in a dict literal")
            seen.add(kn.value)
            v, vt = ev(vn)
            t = vt if t is None else self.unify(t, vt)
            if t is None:
                self.bad(node, "dict literal with values of different types")
            items.append((kn.value, v, vt))
        if t == NONE:
            t = OPT(BOOL)
        if t == LIT:
            t = INT
        body = ", ".join("(%s, %s)" % (lean_str(k), self.coerce(v, vt, t, node)) for k, v, vt in items)
        out = "([%s] : %s)" % (body, self.lean_type(DICTOF(t)))
        if all(self.is_stable_atom(v) for _, v, _ in items):
            self.closed_terms.add(out)       # a table of literals / generated constants
        return out, DICTOF(t)

    # -- dicts used as records -----------------------------------------------------------------------
    def dkey(self, dt, knode, env):
        """classify a key of a drec: ('field', leanfield, type) | ('rest', lean key expr, restfield, type)"""
        sch = DRECS[dt[1]]
        if isinstance(knode, ast.Constant) and isinstance(knode.value, str):
            if knode.value in sch["keys"]:
                f, t = sch["keys"][knode.value]
                return ("field", f, t)
            if sch["rest"] is None:
                self.bad(knode, "key %r is not part of the schema of %s" % (knode.value, dt[1]))
            return ("rest", lean_str(knode.value), sch["rest"][0], sch["rest"][1])
        if sch["rest"] is None:
            self.bad(knode, "a computed key on %s" % dt[1])
        k, kt = self.expr(knode, env)
        if kt != STR:
            self.bad(knode, "dict key of type %r" % (kt,))
        # ASSUMPTION (documented): a computed key is never one of the schema keys ('file_patterns')
        return ("rest", k, sch["rest"][0], sch["rest"][1])

    def dict_has(self, d, dt, knode, env):
        if dt[0] == "drec":
            c = self.dkey(dt, knode, env)
            if c[0] == "field":
                return "(%s.%s).isSome" % (d, c[1])
            return "(lookup %s %s.%s).isSome" % (c[1], d, c[2])
        if dt == FPS or dt[0] == "dictof":
            k, kt = self.expr(knode, env)
            if kt not in (STR, RELPATH):
                self.bad(knode, "dict key of type %r" % (kt,))
            return "(lookup %s %s).isSome" % (k, d)
        if dt == EMPTYDICT:
            return "false"
        self.bad(knode, "`in` on a value of type %r" % (dt,))

    def dict_get_item(self, d, dt, knode, env, node):
        if dt[0] == "drec":
            c = self.dkey(dt, knode, env)
            if c[0] == "field":
                return self.hoist_opt("v", "%s.%s" % (d, c[1]), "KeyError"), c[2]
            return self.hoist_opt("v", "(lookup %s %s.%s)" % (c[1], d, c[2]), "KeyError"), c[3]
        if dt == FPS or dt[0] == "dictof":
            k, kt = self.expr(knode, env)
            if kt not in (STR, RELPATH):
                self.bad(knode, "dict key of type %r" % (kt,))
            vt = LIST(STR) if dt == FPS else dt[1]
            return self.hoist_opt("v", "(lookup %s %s)" % (k, d), "KeyError"), vt
        self.bad(node, "subscript on a value of type %r" % (dt,))

    def dict_set_item(self, d, dt, knode, v, vt, env, node):
        """Lean term: the dict after `d[k] = v`"""
        if dt[0] == "drec":
            c = self.dkey(dt, knode, env)
            if c[0] == "field":
                return "{ %s with %s := some %s }" % (d, c[1], self.coerce(v, vt, c[2], node))
            return "{ %s with %s := setOpt %s %s %s.%s }" % (d, c[2], c[1], self.coerce(v, vt, c[3], node), d, c[2])
        if dt == FPS:
            k, kt = self.expr(knode, env)
            if kt not in (STR, RELPATH):
                self.bad(knode, "dict key of type %r" % (kt,))
            return "(setOpt %s %s %s)" % (k, self.coerce(v, vt, LIST(STR), node), d)
        self.bad(node, "item assignment on a value of type %r" % (dt,))

    # -- expressions -----------------------------------------------------------------------------------
    def expr(self, node, env):
        ext = self.spec.get("externs", {})
        if isinstance(node, (ast.Call, ast.Attribute, ast.Name)):
            key = ast.unparse(node)
            if key in ext and not (isinstance(node, ast.Name) and node.id in env):
                return ext[key][0], ext[key][1]

        if isinstance(node, ast.Constant) and isinstance(node.value, (bytes, str)):
            return self.const_value(node)

        if isinstance(node, ast.Call) and ast.unparse(node) in ("pl.Path.cwd()", "pathlib.Path.cwd()"):
            return "()", ("cwd",)

        if isinstance(node, ast.Name):
            if node.id in env:
                v = env[node.id]
                if v.type in (MSG,):
                    self.bad(node, "an exception message is only supported as the argument of `raise`")
                return v.lean, v.type
            if self.consts.has(node.id):
                return self.const_value(node)
            self.bad(node, "unknown name `%s`" % node.id)

        if isinstance(node, ast.JoinedStr):
            return "()", MSG

        if isinstance(node, ast.Dict):
            return self.dict_literal(node, lambda e: self.expr(e, env))

        if isinstance(node, ast.Attribute):
            # enum member / module constant attribute
            if isinstance(node.value, ast.Name) and node.value.id not in env:
                if node.value.id in tf.ENUMS or (self.consts.has(node.value.id) and node.attr == "value"):
                    return self.const_value(node)
            val, t = self.expr(node.value, env)
            if t[0] == "enum" and node.attr == "value":
                return "(Cfg.%s.value %s)" % (t[1], val), STR
            if t == RELPATH and node.attr == "suffix":
                return "(pySuffix %s)" % val, STR
            if t == RELPATH and node.attr == "name":
                # a RELPATH is a file directly inside the project directory: its name is itself
                return val, STR
            if t[0] == "rec":
                r = self.record(t[1])
                for f, path, ft in r["fields"]:
                    if f == node.attr:
                        return "%s.%s" % (val, path), ft
                self.bad(node, "record %s has no field `%s`" % (t[1], node.attr))
            self.bad(node, "attribute `%s` of a value of type %r" % (node.attr, t))

        if isinstance(node, ast.Subscript):
            val, t = self.expr(node.value, env)
            if t[0] == "drec" or t == FPS or t[0] == "dictof":
                return self.dict_get_item(val, t, node.slice, env, node)
            if t == STR:
                sl = node.slice
                if isinstance(sl, ast.Slice):
                    if (sl.upper is None and sl.step is None and isinstance(sl.lower, ast.Constant)
                            and isinstance(sl.lower.value, int) and sl.lower.value >= 0):
                        return "(List.drop %d %s)" % (sl.lower.value, val), STR
                    self.bad(node, "only the slice `[n:]` with a constant n >= 0")
                idx = None
                if isinstance(sl, ast.Constant) and isinstance(sl.value, int):
                    idx = sl.value
                elif (isinstance(sl, ast.UnaryOp) and isinstance(sl.op, ast.USub)
                      and isinstance(sl.operand, ast.Constant) and isinstance(sl.operand.value, int)):
                    idx = -sl.operand.value
                if idx is None:
                    self.bad(node, "only constant indices on a str")
                return self.hoist_opt("c", "(Py.strIdx %s (%d))" % (val, idx), "IndexError"), STR
            return tf.FuncTranslator.expr(self, node, env)

        if isinstance(node, ast.BinOp) and isinstance(node.op, ast.Div):
            a, ta = self.expr(node.left, env)
            b, tb = self.expr(node.right, env)
            if ta == PROJDIR and tb == STR:
                return b, RELPATH          # a file directly inside the project directory
            if ta == ("cwd",) and tb == RELPATH:
                return b, RELPATH          # the same file, addressed absolutely
            self.bad(node, "`/` is only supported as `project_dir / name`")

        if isinstance(node, ast.BinOp) and isinstance(node.op, ast.Add):
            # message building: f-string + str
            for side in (node.left, node.right):
                if isinstance(side, ast.JoinedStr):
                    return "()", MSG

        if isinstance(node, (ast.ListComp, ast.GeneratorExp)):
            return self.comprehension(node, env)

        if isinstance(node, ast.Tuple) and node.elts and all(isinstance(e, ast.Constant) for e in node.elts) \
                and len({type(e.value) for e in node.elts}) == 1 and isinstance(node.elts[0].value, str):
            # a tuple of str constants is only used as a container (`x in ("a", "b")`)
            return "[" + ", ".join(lean_str(e.value) for e in node.elts) + "]", LIST(STR)

        return tf.FuncTranslator.expr(self, node, env)

    def comprehension(self, node, env):
        """`[e for x in xs if c]` / the same as a generator expression -> List.filter / List.map"""
        if len(node.generators) != 1 or node.generators[0].is_async:
            self.bad(node, "only comprehensions with one `for`")
        gen = node.generators[0]
        if not isinstance(gen.target, ast.Name):
            self.bad(node, "comprehension target must be a name")
        xs, txs = self.expr(gen.iter, env)
        if txs[0] != "list" or txs[1] is None:
            self.bad(node, "comprehension over a value of type %r" % (txs,))
        x = lean_ident(gen.target.id)
        env2 = dict(env)
        env2[gen.target.id] = Var(x, txs[1])
        saved_h, self.hoists = self.hoists, None        # the element expressions must be total
        try:
            out = xs
            for c in gen.ifs:
                out = "(List.filter (fun %s => %s) %s)" % (x, self.truthy(c, env2), out)
            e, te = self.expr(node.elt, env2)
            if not (isinstance(node.elt, ast.Name) and node.elt.id == gen.target.id):
                out = "(List.map (fun %s => %s) %s)" % (x, e, out)
        finally:
            self.hoists = saved_h
        if te == LIT:
            te = INT
        return out, LIST(te)

    def compare1(self, op, ln, rn, env, node):
        if isinstance(op, (ast.Is, ast.IsNot)) and isinstance(rn, ast.Constant) and rn.value is None \
                and not self.narrowing_atom(ast.Compare(left=ln, ops=[op], comparators=[rn]), env):
            a, ta = self.expr(ln, env)
            neg = isinstance(op, ast.IsNot)
            if ta == RAWVAL:
                return "(%s %s RawVal.none)" % (a, "!=" if neg else "==")
            if ta == NONE:
                return "false" if neg else "true"
            if ta[0] != "opt":
                return "true" if neg else "false"
            return "(%s %s none)" % (a, "!=" if neg else "==")
        if isinstance(op, (ast.In, ast.NotIn)):
            neg = "!" if isinstance(op, ast.NotIn) else ""
            b, tb = self.expr(rn, env)
            if tb[0] == "drec" or tb == FPS or tb[0] == "dictof" or tb == EMPTYDICT:
                return "(%s%s)" % (neg, self.dict_has(b, tb, ln, env))
            a, ta = self.expr(ln, env)
            if ta == STR and tb == STR:
                return "(%sisInfix %s %s)" % (neg, a, b)
            if tb[0] == "list" and tb[1] is not None:
                u = self.unify(ta, tb[1])
                if u != tb[1]:
                    self.bad(node, "`in` on %r and %r" % (ta, tb))
                return "(%sList.elem %s %s)" % (neg, self.coerce(a, ta, tb[1], node), b)
            self.bad(node, "`in` on %r and %r" % (ta, tb))
        if isinstance(op, (ast.Eq, ast.NotEq)):
            a, ta = self.expr(ln, env)
            b, tb = self.expr(rn, env)
            t = self.unify(ta, tb)
            if RELPATH in (ta, tb):
                t = STR if {ta, tb} <= {RELPATH, STR} else None
            if t is None:
                self.bad(node, "`==` on values of different types %r and %r" % (ta, tb))
            if t == LIT:
                t = INT
            if t[0] in ("opaque", "proj", "drec", "ini", "file", "msg", "projdir"):
                self.bad(node, "`==` on values of type %r" % (t,))
            return "(%s %s %s)" % (self.coerce(a, ta, t, node), "!=" if isinstance(op, ast.NotEq) else "==",
                                   self.coerce(b, tb, t, node))
        return tf.FuncTranslator.compare1(self, op, ln, rn, env, node)

    def isinstance_str(self, node):
        """is `node` the call `isinstance(<x>, str)` / `isinstance(<x>, (bytes, str))`? -> the <x> node"""
        if not (isinstance(node, ast.Call) and isinstance(node.func, ast.Name) and node.func.id == "isinstance"
                and len(node.args) == 2 and not node.keywords):
            return None
        t = node.args[1]
        names = None
        if isinstance(t, ast.Name):
            names = [t.id]
        elif isinstance(t, ast.Tuple) and all(isinstance(e, ast.Name) for e in t.elts):
            names = [e.id for e in t.elts]
        if names is None or "str" not in names or not set(names) <= {"str", "bytes"}:
            self.bad(node, "only `isinstance(x, str)` / `isinstance(x, (bytes, str))`")
        return node.args[0]

    def str_receiver(self, f, env):
        """the receiver of a str method: a dynamically typed value is narrowed (AttributeError otherwise)"""
        recv, tr = self.expr(f.value, env)
        if tr == RAWVAL:
            recv = self.hoist_opt("s", "(Py.strOf %s)" % recv, "AttributeError")
            tr = STR
        return recv, tr

    def call(self, node, env):
        f = node.func
        fname = ast.unparse(f)
        xf = self.spec.get("extern_funcs", {})

        # isinstance on a dynamically typed value
        x = self.isinstance_str(node) if fname == "isinstance" else None
        if x is not None:
            a, ta = self.expr(x, env)
            if ta == RAWVAL:
                return "(Py.isStr %s)" % a, BOOL
            if ta == STR:
                return "true", BOOL
            self.bad(node, "isinstance on a value of type %r" % (ta,))

        # pl.Path(x).exists()  (a path relative to the working directory: a parameter)
        if (isinstance(f, ast.Attribute) and f.attr == "exists" and not node.args and isinstance(f.value, ast.Call)
                and ast.unparse(f.value.func) in ("pl.Path", "pathlib.Path") and len(f.value.args) == 1
                and "pl.Path(_).exists" in xf):
            a, ta = self.expr(f.value.args[0], env)
            if ta == RAWVAL:
                a = self.hoist_opt("p", "(Py.strOf %s)" % a, "TypeError")      # pl.Path(None) raises TypeError
            elif ta != STR:
                self.bad(node, "pl.Path of a value of type %r" % (ta,))
            return "(%s %s)" % (xf["pl.Path(_).exists"][0], a), BOOL

        # callees that stay parameters
        if fname in xf:
            ln, pts, rt, raises = xf[fname]
            if node.keywords or len(node.args) != len(pts):
                self.bad(node, "call of `%s` does not fit its declared signature" % fname)
            args = []
            for an, pt in zip(node.args, pts):
                a, ta = self.expr(an, env)
                args.append(self.coerce(a, ta, pt, an))
            call = "(%s %s)" % (ln, " ".join(args))
            if raises:
                return self.hoist_exc("r", call), rt
            return call, rt

        # other translated functions of the group
        if fname in self.group:
            return self.call_translated(node, fname, env)

        if fname == "str" and len(node.args) == 1 and not node.keywords:
            # str(p.relative_to(dir.absolute())) for a file p directly inside dir: its name
            a0 = node.args[0]
            if (isinstance(a0, ast.Call) and isinstance(a0.func, ast.Attribute) and a0.func.attr == "relative_to"
                    and len(a0.args) == 1 and isinstance(a0.args[0], ast.Call)
                    and isinstance(a0.args[0].func, ast.Attribute) and a0.args[0].func.attr == "absolute"
                    and not a0.args[0].args):
                pth, tp = self.expr(a0.func.value, env)
                d, td = self.expr(a0.args[0].func.value, env)
                if tp == RELPATH and td == PROJDIR:
                    return pth, STR
                self.bad(node, "relative_to on values of types %r, %r" % (tp, td))
            a, ta = self.expr(a0, env)
            if ta == STR:
                return a, STR
            if ta == RELPATH:
                return "(%s.child %s)" % (self.the_projdir(node, env), a), STR
            self.bad(node, "str() of a value of type %r" % (ta,))

        if fname == "dict" and len(node.args) == 1 and not node.keywords:
            a, ta = self.expr(node.args[0], env)
            if ta[0] == "list" and ta[1] is not None and ta[1][0] == "tuple" and len(ta[1][1]) == 2 and ta[1][1][0] == STR:
                return "(Py.pyDict %s)" % a, DICTOF(ta[1][1][1])
            self.bad(node, "dict() of a value of type %r" % (ta,))

        if fname == "list" and len(node.args) == 1 and isinstance(node.args[0], ast.Name) \
                and node.args[0].id in tf.ENUMS and node.args[0].id not in env:
            self.enum(node.args[0].id)
            return "Cfg.%s.all" % node.args[0].id, LIST(ENUM(node.args[0].id))

        if fname in tf.ENUMS and fname not in env:          # enum by value
            self.enum(fname)
            if len(node.args) != 1 or node.keywords:
                self.bad(node, "enum constructor takes one value")
            a, ta = self.expr(node.args[0], env)
            if ta[0] == "enum":
                return a, ta
            if ta == RAWVAL:
                # `TagScope(True)`, `TagScope(None)`: ValueError, like a str that is no member value
                return self.hoist_opt("v", "(Option.bind (Py.strOf %s) Cfg.%s.ofValue)" % (a, fname), "ValueError"), ENUM(fname)
            if ta != STR:
                self.bad(node, "enum constructor on a value of type %r" % (ta,))
            return self.hoist_opt("v", "(Cfg.%s.ofValue %s)" % (fname, a), "ValueError"), ENUM(fname)

        if fname in MYCONSTRUCTORS:
            r = self.record(MYCONSTRUCTORS[fname])
            fields = r["fields"]
            if len(node.args) + len(node.keywords) != len(fields):
                self.bad(node, "constructor needs all %d fields" % len(fields))
            vals = {}
            for (f_, _, _), a in zip(fields, node.args):
                vals[f_] = a
            for kw in node.keywords:
                if kw.arg is None or kw.arg in vals or kw.arg not in [x_ for x_, _, _ in fields]:
                    self.bad(node, "bad keyword `%s`" % kw.arg)
                vals[kw.arg] = kw.value
            # Python evaluates the arguments in SOURCE order; the field order only matters for the result
            order = list(node.args) + [kw.value for kw in node.keywords]
            done = {}
            for an in order:
                done[id(an)] = self.expr(an, env)
            items = []
            for f_, path, ft in fields:
                v, vt = done[id(vals[f_])]
                items.append("%s := %s" % (path, self.coerce(v, vt, ft, vals[f_])))
            return "({ " + ", ".join(items) + " } : %s)" % r["lean"], REC(MYCONSTRUCTORS[fname])

        if isinstance(f, ast.Attribute):
            m = f.attr
            # methods whose receiver decides
            if m in ("strip", "splitlines", "startswith", "lower", "replace", "format", "lstrip", "rstrip"):
                recv, tr = self.str_receiver(f, env)
                if tr == STR:
                    return self.str_method(node, m, recv, env)
            recv, tr = self.expr(f.value, env)
            if m == "get" and tr[0] == "drec" and len(node.args) in (1, 2) and not node.keywords:
                c = self.dkey(tr, node.args[0], env)
                if c[0] != "rest":
                    self.bad(node, "`.get` on the schema key %r" % ast.unparse(node.args[0]))
                if len(node.args) == 2:
                    dv, dt = self.expr(node.args[1], env)
                    dflt = self.coerce(dv, dt, c[3], node.args[1])
                else:
                    dflt = self.coerce("none", NONE, c[3], node)
                return "((lookup %s %s.%s).getD %s)" % (c[1], recv, c[2], dflt), c[3]
            if m == "items" and not node.args and not node.keywords:
                if tr == FPS:
                    return recv, LIST(TUP(STR, LIST(STR)))
                if tr[0] == "dictof":
                    return recv, LIST(TUP(STR, tr[1]))
                if tr == INI:
                    self.bad(node, "`items()` of a parser needs the section name")
            if tr == INI and m == "has_section" and len(node.args) == 1 and not node.keywords:
                a, ta = self.expr(node.args[0], env)
                if ta != STR:
                    self.bad(node, "section name of type %r" % (ta,))
                return "(lookup %s %s.sections).isSome" % (a, recv), BOOL
            if tr == INI and m == "items" and len(node.args) == 1 and not node.keywords:
                a, ta = self.expr(node.args[0], env)
                if ta != STR:
                    self.bad(node, "section name of type %r" % (ta,))
                return (self.hoist_opt("items", "(lookup %s %s.sections)" % (a, recv), "NoSectionError"),
                        LIST(TUP(STR, STR)))
            if tr == RELPATH and m == "is_absolute" and not node.args and not node.keywords:
                return "%s.isAbs" % self.the_projdir(node, env), BOOL
            if tr == RELPATH and m == "exists" and not node.args and not node.keywords:
                self.need_fs(node)
                return "(%s %s).isSome" % (env["$fs"].lean, recv), BOOL
            if tr[0] == "file" and m == "read" and not node.args and not node.keywords:
                if tr[1] != "r":
                    self.bad(node, "read() on a file opened for writing")
                return tr[2], STR
        return tf.FuncTranslator.call(self, node, env)

    def str_method(self, node, m, recv, env):
        args = [self.expr(a, env) for a in node.args]
        if m == "format":
            if node.args:
                self.bad(node, "str.format with positional arguments")
            kws = []
            for kw in node.keywords:
                if kw.arg is None:
                    self.bad(node, "str.format(**dict)")
                v, vt = self.expr(kw.value, env)
                kws.append("(%s, %s)" % (lean_str(kw.arg), self.coerce(v, vt, STR, kw.value)))
            return self.hoist_exc("s", "(Py.format [%s] %s)" % (", ".join(kws), recv)), STR
        if node.keywords:
            self.bad(node, "keyword arguments")
        if m == "strip" and not args:
            return "(strip %s)" % recv, STR
        if m in ("strip", "lstrip", "rstrip") and len(args) == 1 and args[0][1] == STR:
            fn = {"strip": "stripChars", "lstrip": "lstripChars", "rstrip": "rstripChars"}[m]
            return "(%s %s %s)" % (fn, args[0][0], recv), STR
        if m == "splitlines" and not args:
            return "(pySplitlines %s)" % recv, LIST(STR)
        if m == "startswith" and len(args) == 1 and args[0][1] == STR:
            return "(startsWith %s %s)" % (recv, args[0][0]), BOOL
        if m == "lower" and not args:
            return "(lowerAscii %s)" % recv, STR
        if m == "replace" and len(args) == 2 and args[0][1] == STR and args[1][1] == STR:
            return "(pyReplace %s %s %s)" % (args[0][0], args[1][0], recv), STR
        self.bad(node, "str method `%s` with these arguments" % m)

    def the_projdir(self, node, env):
        """the project directory a RELPATH is relative to: the one PROJDIR variable in scope"""
        ds = sorted({v.lean for v in env.values() if v.type == PROJDIR})
        if len(ds) != 1:
            self.bad(node, "need exactly one project directory in scope, found %d" % len(ds))
        return ds[0]

    def need_fs(self, node):
        if not self.spec.get("fs"):
            self.bad(node, "file system access in a function that is not declared `fs`")

    def call_translated(self, node, fname, env):
        """call of another function of this group: `GenF.<name> externs [fs] args`;
        a callee that mutates an argument returns the argument's final value, which is re-bound here"""
        cs = self.group[fname]
        if node.keywords:
            self.bad(node, "keyword arguments")
        cparams = [(p, t) for p, t in cs["params"] if t != DROPPED]
        if len(node.args) != len(cparams):
            self.bad(node, "call of `%s` does not fit its signature" % fname)
        head = [cs["name"]]
        for key, (ln, t) in cs.get("externs", {}).items():
            mine = self.spec.get("externs", {}).get(key)
            if mine is None or mine != (ln, t):
                self.bad(node, "callee `%s` needs the parameter `%s` (= `%s`) which this function does not declare" % (fname, ln, key))
            head.append(ln)
        for key, xfd in cs.get("extern_funcs", {}).items():
            if self.spec.get("extern_funcs", {}).get(key) != xfd:
                self.bad(node, "callee `%s` needs the callee parameter `%s`" % (fname, xfd[0]))
            head.append(xfd[0])
        if cs.get("fs"):
            self.need_fs(node)
            head.append(env["$fs"].lean)
        rebinding = []
        for an, (p, pt) in zip(node.args, cparams):
            a, ta = self.expr(an, env)
            head.append(self.coerce(a, ta, pt, an))
            if p in cs.get("state", []):
                if not isinstance(an, ast.Name):
                    self.bad(node, "the argument `%s` is mutated by `%s`: it must be a variable" % (ast.unparse(an), fname))
                rebinding.append(an.id)
        state = list(cs.get("state", []))
        pats = []
        for s in state:
            if s == "fs":
                pats.append(("$fs", env["$fs"].lean))
            else:
                idx = [p for p, _ in cparams].index(s)
                an = node.args[idx]
                pats.append((an.id, env[an.id].lean))
        rt = cs["ret"]
        if cs.get("generator"):
            rt = cs["ret"]
        names = [ln for _, ln in pats]
        v = None
        if rt != NONE:
            v = self.fresh("r")
            names.append(v)
        if self.hoists is None:
            self.bad(node, "a call of `%s` stands where only a total expression is supported" % fname)
        pat = "()" if not names else (names[0] if len(names) == 1 else "(" + ", ".join(names) + ")")
        if pats:
            self.mutated_here = getattr(self, "mutated_here", []) + [n for n, _ in pats]
        self.hoists.append((pat, "(%s)" % " ".join(head), "exc", None))
        return (v if v is not None else "()"), (rt if rt != NONE else NONE)

    # -- truthiness ----------------------------------------------------------------------------------
    def truthy_of(self, lean, t, node):
        if t == RAWVAL:
            return "(RawVal.truthy %s)" % lean
        if t == FPS or t[0] == "dictof":
            return "(!%s.isEmpty)" % lean
        if t[0] in ("drec", "ini", "relpath", "projdir", "file", "msg", "emptydict"):
            self.bad(node, "truthiness of a value of type %r is not defined in the subset" % (t,))
        return tf.FuncTranslator.truthy_of(self, lean, t, node)

    # -- conditions ---------------------------------------------------------------------------------
    def static_truth(self, test, env):
        """True / False when the static type of a project-directory variable decides the test, else None:
        `isinstance(p, pl.Path)` is True, `p is None` is False, `p is not None` is True"""
        if (isinstance(test, ast.Call) and isinstance(test.func, ast.Name) and test.func.id == "isinstance"
                and len(test.args) == 2 and ast.unparse(test.args[1]) in ("pl.Path", "pathlib.Path")
                and isinstance(test.args[0], ast.Name) and test.args[0].id in env
                and env[test.args[0].id].type == PROJDIR):
            return True
        if (isinstance(test, ast.Compare) and len(test.ops) == 1 and isinstance(test.ops[0], (ast.Is, ast.IsNot))
                and isinstance(test.comparators[0], ast.Constant) and test.comparators[0].value is None
                and isinstance(test.left, ast.Name) and test.left.id in env and env[test.left.id].type == PROJDIR):
            return isinstance(test.ops[0], ast.IsNot)
        return None

    def isinstance_atom(self, node, env):
        if isinstance(node, ast.Call) and ast.unparse(node.func) == "isinstance" and len(node.args) == 2 \
                and ast.unparse(node.args[1]) in ("pl.Path", "pathlib.Path"):
            return None
        if isinstance(node, ast.Call) and ast.unparse(node.func) == "isinstance":
            x = self.isinstance_str(node)
            if isinstance(x, ast.Name) and x.id in env and env[x.id].type == RAWVAL:
                return x.id
        return None

    def needs_split(self, node, env):
        if isinstance(node, ast.BoolOp):
            return any(self.needs_split(v, env) for v in node.values)
        if isinstance(node, ast.UnaryOp) and isinstance(node.op, ast.Not):
            return self.needs_split(node.operand, env)
        return self.narrowing_atom(node, env) is not None or self.isinstance_atom(node, env) is not None

    def cond(self, test, env, tk, ek, as_bool=False, top=True):
        if isinstance(test, ast.UnaryOp) and isinstance(test.op, ast.Not):
            if as_bool and not self.needs_split(test, env):
                return self.truthy(test, env)
            return self.cond(test.operand, env, ek, tk, top=top)
        if isinstance(test, ast.BoolOp) and not as_bool and (self.needs_split(test, env) or self.raises_in(test, env)):
            first, rest = test.values[0], test.values[1:]
            more = rest[0] if len(rest) == 1 else ast.copy_location(ast.BoolOp(op=test.op, values=rest), test)
            if isinstance(test.op, ast.And):
                return self.cond(first, env, lambda e: self.cond(more, e, tk, ek, top=False), ek, top=False)
            return self.cond(first, env, tk, lambda e: self.cond(more, e, tk, ek, top=False), top=False)
        if not as_bool:
            # decided by the signature table (the parameter IS a Path): the other branch is not translated
            st_ = self.static_truth(test, env)
            if st_ is not None:
                return tk(env) if st_ else ek(env)
        if not as_bool:
            name = self.isinstance_atom(test, env)
            if name is not None:
                var = env[name]
                nv = self.fresh(name)
                env2 = dict(env)
                env2[name] = Var(nv, STR, narrowed_from=var)
                return "(match %s with\n  | .str %s => %s\n  | _ => %s)" % (var.lean, nv, _arm(tk(env2)), _arm(ek(env)))
        atom = self.narrowing_atom(test, env, top=top and not as_bool)
        if atom is not None or as_bool:
            return tf.FuncTranslator.cond(self, test, env, tk, ek, as_bool=as_bool, top=top)
        return self.with_hoists(
            lambda: self.truthy(test, env),
            lambda b: "(if %s then %s else %s)" % (b, _nl(tk(env)), _nl(ek(env))))

    # -- statements -----------------------------------------------------------------------------------
    def ret_value(self, v):
        """the `.ok` result: the final values of the mutated parameters, then the value"""
        parts = []
        return parts

    def ret(self, node, env, at):
        spec = self.spec
        rt = spec["ret"]

        def compute():
            if spec.get("generator"):
                if node is not None:
                    self.bad(at, "`return value` in a generator")
                return env["$out"].lean
            if node is None:
                if rt != NONE:
                    # falling off the end / bare return in a function that returns a value
                    self.bad(at, "the function can return None where the signature table says %r" % (rt,))
                return None
            v, t = self.expr(node, env)
            if rt == NONE:
                self.bad(at, "`return value` in a function the signature table declares as returning None")
            return self.coerce(v, t, rt, at)

        def cont(v):
            parts = []
            for s in spec.get("state", []):
                key = "$fs" if s == "fs" else s
                parts.append(env[key].lean)
            if v is not None:
                parts.append(v)
            if not parts:
                return "(Except.ok ())"
            return "(Except.ok %s)" % (parts[0] if len(parts) == 1 else "(" + ", ".join(parts) + ")")
        return self.with_hoists(compute, cont)

    def is_dropped(self, st):
        if tf.FuncTranslator.is_dropped(self, st):
            return True
        if isinstance(st, ast.Expr) and isinstance(st.value, ast.Call):
            f = st.value.func
            if isinstance(f, ast.Name) and f.id == "print":
                return True                 # terminal output is not modelled
        if isinstance(st, ast.If):
            # `if hasattr(parser, 'read_file'): parser.read_file(buf) else: parser.readfp(buf)`
            t = st.test
            if isinstance(t, ast.Call) and isinstance(t.func, ast.Name) and t.func.id == "hasattr":
                if all(self.is_parser_io(s) for s in st.body + st.orelse):
                    return True
        return self.is_parser_io(st)

    def is_parser_io(self, st):
        """`<parser>.read_file(...)` / `.readfp(...)`: the parser PARAMETER is the parser after reading"""
        if isinstance(st, ast.Expr) and isinstance(st.value, ast.Call):
            f = st.value.func
            if isinstance(f, ast.Attribute) and f.attr in ("read_file", "readfp") and isinstance(f.value, ast.Name):
                return f.value.id in self.parser_vars
        return False

    def bind(self, name, lean, t, env, at):
        """`let name := lean` honouring a declared type; -> (text, env')"""
        if name in self.declared:
            lean = self.coerce(lean, t, self.declared[name], at)
            t = self.declared[name]
        if t == LIT:
            t = INT
        ln = lean_ident(name)
        env2 = dict(env)
        env2[name] = Var(ln, t)
        if t == INI:
            self.parser_vars.add(name)
        if t in (MSG,):
            return "", env2
        if t == NONE:
            env2[name] = Var("none", NONE)      # `x = None`: typed at the next join
            return "", env2
        if self.is_stable_atom(lean):
            # `x = y` / `x = CONSTANT` / `x = rec.field` where the right-hand side can never change:
            # no `let`, the name simply stands for that term
            env2[name] = Var(lean, t)
            return "", env2
        return "let %s := %s;\n" % (ln, lean), env2

    def is_stable_atom(self, lean):
        """a Lean term that is a literal, or a variable / projection chain whose root is never re-bound
        (a fresh temporary of the translator, or a parameter the function never assigns to)"""
        import re
        if lean in self.closed_terms or (lean.startswith("([") and lean.endswith("] : Str)")):
            return True
        if re.fullmatch(r'"(?:[^"\\]|\\.)*"\.toList', lean):
            return True
        if not re.fullmatch(r"[A-Za-z_][A-Za-z_0-9]*(\.[A-Za-z_0-9]+)*", lean):
            return False
        if lean.startswith(self.spec["name"] + ".C_"):
            return True                      # a generated constant
        root = lean.split(".")[0]
        if re.fullmatch(r"[A-Za-z_]+_[0-9]+", root) and root not in self.py_names:
            return True                      # a fresh name (`v_3`): bound once by a match arm
        return root in self.stable_roots

    def assign_targets(self, targets, value, env, kr, at):
        """`t1 = t2 = ... = value`: the value is evaluated once, the targets are assigned left to right"""
        self.mutated_here = []
        box = {}

        def compute():
            v, t = self.expr(value, env)
            lines = []
            e = env
            cur = (v, t)
            for i, tg in enumerate(targets):
                if isinstance(tg, ast.Name):
                    txt, e = self.bind(tg.id, cur[0], cur[1], e, at)
                    lines.append(txt)
                    if e[tg.id].type not in (MSG,):
                        cur = (e[tg.id].lean, e[tg.id].type)
                elif isinstance(tg, ast.Tuple) and all(isinstance(x_, ast.Name) for x_ in tg.elts) \
                        and cur[1][0] == "tuple" and len(cur[1][1]) == len(tg.elts):
                    src_ = cur[0]
                    if not self.is_stable_atom(src_):
                        tmp = self.fresh("t")
                        lines.append("let %s := %s;\n" % (tmp, src_))
                        src_ = tmp
                    n_ = len(tg.elts)
                    for i_, (x_, t_) in enumerate(zip(tg.elts, cur[1][1])):
                        path_ = ".2" * i_ + (".1" if i_ < n_ - 1 else "")
                        txt, e = self.bind(x_.id, "%s%s" % (src_, path_), t_, e, at)
                        lines.append(txt)
                elif isinstance(tg, ast.Subscript) and isinstance(tg.value, ast.Name) and tg.value.id in e:
                    d = e[tg.value.id]
                    if i == 0 and len(targets) > 1 and not isinstance(value, (ast.Name, ast.Constant)):
                        tmp = self.fresh("t")
                        lines.append("let %s := %s;\n" % (tmp, cur[0]))
                        cur = (tmp, cur[1])
                    new = self.dict_set_item(d.lean, d.type, tg.slice, cur[0], cur[1], e, at)
                    e = dict(e)
                    e[tg.value.id] = Var(d.lean, d.type)
                    lines.append("let %s := %s;\n" % (d.lean, new))
                else:
                    self.bad(at, "assignment target `%s`" % ast.unparse(tg))
            box["env"] = e
            return "".join(lines)

        def cont(lines):
            self.check_mutation_refs(at, value)
            return lines + kr(box["env"])
        return self.with_hoists(compute, cont)

    def check_mutation_refs(self, st, value):
        """a statement that calls a MUTATING callee may mention the mutated variable only as that argument
        (the hoisted call is evaluated before the rest of the statement)"""
        mut = getattr(self, "mutated_here", [])
        self.mutated_here = []
        for name in mut:
            if name == "$fs":
                continue
            n = sum(1 for x in ast.walk(st) if isinstance(x, ast.Name) and x.id == name)
            if n != 1:
                self.bad(st, "`%s` is mutated by a callee and mentioned elsewhere in the same statement" % name)

    def block(self, stmts, env, k):
        if not stmts:
            return k(env)
        st, rest = stmts[0], stmts[1:]

        def kr(e):
            return self.block(rest, e, k)
        if self.is_dropped(st):
            return kr(env)
        if isinstance(st, ast.AnnAssign) and st.value is None:
            if isinstance(st.target, ast.Name):
                key = ast.unparse(st.annotation)
                if key in DECLARED:
                    self.declared[st.target.id] = DECLARED[key]
            return kr(env)
        if isinstance(st, ast.Return):
            return self.ret(st.value, env, st)
        if isinstance(st, ast.Raise):
            exc = st.exc
            name = ast.unparse(exc.func) if isinstance(exc, ast.Call) else (ast.unparse(exc) if exc is not None else "")
            if name not in EXC_CLASSES:
                self.bad(st, "`raise` of something that is not one of %s" % sorted(EXC_CLASSES))
            return self.err(name)
        if isinstance(st, ast.With):
            return self.with_stmt(st, rest, env, k)
        if isinstance(st, ast.Assign):
            return self.assign_targets(list(st.targets), st.value, env, kr, st)
        if isinstance(st, ast.AnnAssign):
            return self.assign_targets([st.target], st.value, env, kr, st)
        if isinstance(st, ast.AugAssign):
            if not isinstance(st.target, ast.Name):
                self.bad(st, "only `name op= expr`")
            b = ast.copy_location(ast.BinOp(left=ast.Name(id=st.target.id, ctx=ast.Load()), op=st.op, right=st.value), st)
            ast.fix_missing_locations(b)
            return self.assign_targets([st.target], b, env, kr, st)
        if isinstance(st, ast.Expr):
            return self.expr_stmt(st, env, kr)
        if isinstance(st, ast.If):
            return self.if_stmt(st, rest, env, k)
        if isinstance(st, ast.For):
            return self.for_stmt(st, rest, env, k)
        if isinstance(st, ast.Continue):
            if not self.loop_k:
                self.bad(st, "`continue` outside a loop")
            return self.loop_k[-1](env)
        self.bad(st, "statement form %s is outside the subset" % type(st).__name__)

    def expr_stmt(self, st, env, kr):
        v = st.value
        if isinstance(v, ast.Yield):
            if not self.spec.get("generator") or v.value is None:
                self.bad(st, "`yield` outside a declared generator / without a value")
            out = env["$out"]

            def compute():
                e, t = self.expr(v.value, env)
                et = self.spec["ret"][1]
                return "(%s ++ [%s])" % (out.lean, self.coerce(e, t, et, st))

            def cont(new):
                env2 = dict(env)
                env2["$out"] = Var(out.lean, out.type)
                return "let %s := %s;\n%s" % (out.lean, new, kr(env2))
            return self.with_hoists(compute, cont)
        if isinstance(v, ast.Call):
            f = v.func
            # f.write(text) on a file opened for appending
            if isinstance(f, ast.Attribute) and f.attr == "write" and isinstance(f.value, ast.Name) \
                    and f.value.id in env and env[f.value.id].type[0] == "file":
                ft = env[f.value.id].type
                if ft[1] != "a" or len(v.args) != 1 or v.keywords:
                    self.bad(st, "only `f.write(text)` on a file opened with mode 'at'")
                fs = env["$fs"]

                def compute():
                    e, t = self.expr(v.args[0], env)
                    return self.coerce(e, t, STR, st)

                def cont(text):
                    env2 = dict(env)
                    env2["$fs"] = Var(fs.lean, fs.type)
                    return "let %s := Py.fsAppend %s %s %s;\n%s" % (fs.lean, fs.lean, ft[2], text, kr(env2))
                return self.with_hoists(compute, cont)
            # list.append
            a = self.as_assignment(st, env)
            if a is not None:
                name, compute1 = a
                return self.assign(name, lambda: compute1(env), env, kr, st)
            # a call for its effect: a raising callee parameter, or a translated function mutating its argument
            fname = ast.unparse(f)
            if fname in self.spec.get("extern_funcs", {}) or fname in self.group:
                self.mutated_here = []

                def compute():
                    self.expr(v, env)
                    return None

                def cont(_):
                    self.check_mutation_refs(st, v)
                    return kr(env)
                return self.with_hoists(compute, cont)
        self.bad(st, "expression statement `%s` is outside the subset" % tf._short(st))

    def assign(self, name, compute, env, kr, at):
        def cont(vt):
            v, t = vt
            txt, env2 = self.bind(name, v, t, env, at)
            return txt + kr(env2)
        return self.with_hoists(compute, cont)

    def with_stmt(self, st, rest, env, k):
        """`with <relpath>.open(mode=...) as f:` — read modes bind the content, 'at' appends"""
        if len(st.items) != 1 or st.items[0].optional_vars is None or not isinstance(st.items[0].optional_vars, ast.Name):
            self.bad(st, "only `with <expr> as <name>:`")
        ce = st.items[0].context_expr
        fvar = st.items[0].optional_vars.id
        if not (isinstance(ce, ast.Call) and isinstance(ce.func, ast.Attribute) and ce.func.attr == "open" and not ce.args):
            self.bad(st, "only `with <path>.open(mode=...) as f:`")
        mode = None
        for kw in ce.keywords:
            if kw.arg == "mode" and isinstance(kw.value, ast.Constant):
                mode = kw.value.value
            elif kw.arg == "encoding" and isinstance(kw.value, ast.Constant) and kw.value.value == "utf-8":
                pass
            else:
                self.bad(st, "open() keyword `%s`" % kw.arg)
        self.need_fs(st)
        fs = env["$fs"]

        def body_then_rest(e):
            # leaving the `with` block has no effect on a pure file system
            return self.block(list(st.body) + list(rest), e, k)

        def compute():
            p, tp = self.expr(ce.func.value, env)
            if tp != RELPATH:
                self.bad(st, "open() on a value of type %r" % (tp,))
            return p

        if mode in ("rb", "rt", "r"):
            def cont(p):
                content = self.fresh(fvar)
                env2 = dict(env)
                env2[fvar] = Var(content, FILE("r", content))
                self.errs += 1
                return "(match %s %s with\n  | none => (Except.error %s)\n  | some %s => %s)" % (
                    fs.lean, p, lean_str("FileNotFoundError"), content, _arm(body_then_rest(env2)))
            return self.with_hoists(compute, cont)
        if mode in ("at", "a"):
            def cont(p):
                env2 = dict(env)
                env2[fvar] = Var(p, FILE("a", p))
                return body_then_rest(env2)
            return self.with_hoists(compute, cont)
        self.bad(st, "open() mode %r" % (mode,))

    def contains_exit(self, stmts, allow_continue=False):
        for st in stmts:
            for n in ast.walk(st):
                if isinstance(n, ast.Continue) and allow_continue:
                    continue
                if isinstance(n, (ast.Return, ast.Raise, ast.Break, ast.Continue)):
                    return True
        return False

    def contains_jump(self, stmts):
        """return / break / continue (a `raise` is no obstacle to a monadic join)"""
        for st in stmts:
            for n in ast.walk(st):
                if isinstance(n, (ast.Return, ast.Break, ast.Continue)):
                    return True
        return False

    def if_stmt(self, st, rest, env, k):
        def kr(e):
            return self.block(rest, e, k)
        if not rest and getattr(k, "is_join", False):
            # nothing follows inside the joined branch (an `elif` chain): no nested join needed
            return self.cond(st.test, env, lambda e: self.block(st.body, e, k), lambda e: self.block(st.orelse, e, k))
        has_raise = self.contains_exit(st.body) or self.contains_exit(st.orelse)
        if not self.contains_jump(st.body) and not self.contains_jump(st.orelse):
            saved_c, saved_e, saved_d, saved_a = self.counter, self.errs, dict(self.declared), len(self.aux)
            probes = []

            def pk(e):
                probes.append(e)
                return "?"
            pk.is_join = True
            self.join_depth += 1
            try:
                self.cond(st.test, env, lambda e: self.block(st.body, e, pk), lambda e: self.block(st.orelse, e, pk))
            finally:
                self.join_depth -= 1
            raised = self.errs != saved_e
            self.counter, self.errs = saved_c, saved_e
            names = self.changed_vars(env, probes)
            names = [n for n in names if all(n in pe for pe in probes)]
            jt = {}
            ok = True
            for n in names:
                t = probes[0][n].type
                for pe in probes[1:]:
                    t = self.unify(t, pe[n].type) if t is not None else None
                if t is None or t[0] == "none":
                    ok = False
                    break
                if t == LIT:
                    t = INT
                if t in (MSG,):
                    continue
                jt[n] = t
            names = [n for n in names if n in jt]
            if ok and not names and not raised:
                return kr(env)
            if has_raise and not names and len(probes) <= 1:
                ok = False          # `if c: raise X`: the plain `if c then error else rest` is simpler
            # (with two or more paths that go on, the rest is NOT duplicated: a join on `()`)
            if ok:
                def tup(e):
                    vals = [self.coerce(e[n].lean, e[n].type, jt[n], st) for n in names]
                    v = "()" if not vals else (vals[0] if len(vals) == 1 else "(" + ", ".join(vals) + ")")
                    return "(Except.ok %s)" % v if raised else v
                tup.is_join = True
                self.join_depth += 1
                try:
                    body = self.cond(st.test, env, lambda e: self.block(st.body, e, tup),
                                     lambda e: self.block(st.orelse, e, tup))
                finally:
                    self.join_depth -= 1
                env2 = dict(env)
                for n in names:
                    old = env.get(n)
                    ln = old.lean if (old is not None and n.startswith("$")) else lean_ident(n)
                    env2[n] = Var(ln, jt[n])
                lns = [env2[n].lean for n in names]
                pat = "()" if not lns else (lns[0] if len(lns) == 1 else "(" + ", ".join(lns) + ")")
                if raised:
                    self.errs += 1
                    tys = [self.lean_type(jt[n]) for n in names]
                    jty = "Unit" if not tys else (tys[0] if len(tys) == 1 else "(" + " × ".join(tys) + ")")
                    jty = "Except Str %s" % (("(%s)" % jty) if (" " in jty and not jty.startswith("(")) else jty)
                    return "(match (%s : %s) with\n  | Except.error err => (Except.error err)\n  | Except.ok %s => %s)" % (
                        body, jty, pat, _arm(kr(env2)))
                if len(lns) == 1:
                    return "let %s := %s;\n%s" % (pat, body, kr(env2))
                return "(match %s with\n  | %s => %s)" % (body, pat, _arm(kr(env2)))
        # DUPLICATION form: the rest of the block is continued inside both branches
        return self.cond(st.test, env, lambda e: self.block(st.body, e, kr), lambda e: self.block(st.orelse, e, kr))

    # -- loops --------------------------------------------------------------------------------------------
    def loop_target(self, st, et, env):
        """bind the loop target(s): -> (lean binder, env with the target names)"""
        env_in = dict(env)
        if isinstance(st.target, ast.Name):
            x = lean_ident(st.target.id)
            env_in[st.target.id] = Var(x, et)
            return x, env_in
        if isinstance(st.target, ast.Tuple) and all(isinstance(e, ast.Name) for e in st.target.elts) \
                and et[0] == "tuple" and len(et[1]) == len(st.target.elts):
            x = self.fresh("kv")
            n = len(et[1])
            for i, (e, t) in enumerate(zip(st.target.elts, et[1])):
                path = ".2" * i + (".1" if i < n - 1 else "")
                env_in[e.id] = Var("%s%s" % (x, path), t)
            return x, env_in
        self.bad(st, "loop target `%s` over elements of type %r" % (ast.unparse(st.target), et))

    def iterable(self, node, env):
        xs, t = self.expr(node, env)
        if t[0] != "list" or t[1] is None:
            self.bad(node, "loop over a value of type %r" % (t,))
        return xs, t[1]

    def carried_vars(self, body, env_in, env, run_body):
        saved_c, saved_e = self.counter, self.errs
        probes = []

        def pk(e):
            probes.append(e)
            return "?"
        run_body(env_in, pk)
        self.counter, self.errs = saved_c, saved_e
        names = [n for n in self.changed_vars(env_in, probes) if n in env]
        st_types = {}
        for n in names:
            t = env[n].type
            for pe in probes:
                t = self.unify(t, pe[n].type) if t is not None else None
            if t is None or (t[0] == "list" and t[1] is None):
                self.bad(body[0] if body else None, "cannot type the loop-carried variable `%s`" % n)
            st_types[n] = t
        return names, st_types

    def for_stmt(self, st, rest, env, k):
        if st.orelse:
            self.bad(st, "`for ... else`")
        box = {}

        def compute():
            box["it"] = self.iterable(st.iter, env)
            return None

        def cont(_):
            return self.for_stmt1(st, rest, env, k, box["it"][0], box["it"][1])
        return self.with_hoists(compute, cont)

    def for_stmt1(self, st, rest, env, k, xs, et):
        x, env_in = self.loop_target(st, et, env)
        body = [s for s in st.body if not self.is_dropped(s)]

        def run_body(e, kk):
            self.loop_k.append(kk)
            self.join_depth += 1
            try:
                return self.block(body, e, kk)
            finally:
                self.join_depth -= 1
                self.loop_k.pop()

        exits = self.contains_exit(body, allow_continue=True)
        names, st_types = self.carried_vars(body, env_in, env, run_body) if not exits else ([], {})
        if not exits:
            def vl(n):
                return env[n].lean if n.startswith("$") else lean_ident(n)
            env_body = dict(env_in)
            for n in names:
                env_body[n] = Var(vl(n), st_types[n])
            saved_c, saved_e = self.counter, self.errs
            probes2 = []
            run_body(env_body, lambda e: (probes2.append(e), "?")[1])
            raised = self.errs != saved_e
            self.counter, self.errs = saved_c, saved_e
            for pe in probes2:
                for n in names:
                    if self.unify(pe[n].type, st_types[n]) != st_types[n]:
                        self.bad(st, "the type of `%s` changes from iteration to iteration" % n)
            if not raised:
                if not names:
                    return self.block(rest, env, k)

                def tup(e):
                    vals = [self.coerce(e[n].lean, e[n].type, st_types[n], st) for n in names]
                    return vals[0] if len(vals) == 1 else "(" + ", ".join(vals) + ")"
                step = run_body(env_body, tup)
                tys = [self.lean_type(st_types[n]) for n in names]
                sty = tys[0] if len(tys) == 1 else " × ".join(tys)
                lns = [vl(n) for n in names]
                pat = lns[0] if len(lns) == 1 else "(" + ", ".join(lns) + ")"
                init = tup(env)
                fold = "(List.foldl (fun (st : %s) (%s : %s) =>\n    (match st with\n      | %s =>\n%s))\n  %s\n  %s)" % (
                    sty, x, self.lean_type(et), pat, indent(step, 8), init, xs)
                env2 = dict(env)
                for n in names:
                    env2[n] = Var(vl(n), st_types[n])
                if len(names) == 1:
                    return "let %s := %s;\n%s" % (pat, fold, self.block(rest, env2, k))
                return "(match %s with\n  | %s => %s)" % (fold, pat, _arm(self.block(rest, env2, k)))
        return self.for_aux(st, rest, env, k, xs, et, x, env_in, body)

    def for_aux(self, st, rest, env, k, xs, et, x, env_in, body):
        """a loop whose body can `return` / `raise`: an auxiliary structurally recursive definition
        `<f>.loopN fixed... carried... : List T → result`; its `[]` case is the REST of the function."""
        if self.join_depth > 0:
            self.bad(st, "a loop with return/raise inside a branch that is joined afterwards")
        self.nloops += 1
        name = "%s.loop%d" % (self.spec["name"], self.nloops)
        # loop-carried variables: assigned in the body and defined before the loop
        assigned = set()
        for s in body:
            for n in ast.walk(s):
                if isinstance(n, (ast.Assign, ast.AugAssign, ast.AnnAssign)):
                    tg = n.targets if isinstance(n, ast.Assign) else [n.target]
                    for t in tg:
                        if isinstance(t, ast.Name):
                            assigned.add(t.id)
                        elif isinstance(t, ast.Subscript) and isinstance(t.value, ast.Name):
                            assigned.add(t.value.id)
                if isinstance(n, ast.Yield):
                    assigned.add("$out")
                if isinstance(n, ast.Call) and isinstance(n.func, ast.Attribute) and n.func.attr in ("append", "write") \
                        and isinstance(n.func.value, ast.Name):
                    assigned.add(n.func.value.id if n.func.attr == "append" else "$fs")
                if isinstance(n, ast.Call) and ast.unparse(n.func) in self.group:
                    cs = self.group[ast.unparse(n.func)]
                    cp = [p for p, t in cs["params"] if t != DROPPED]
                    for s_ in cs.get("state", []):
                        if s_ == "fs":
                            assigned.add("$fs")
                        elif isinstance(n.args[cp.index(s_)], ast.Name):
                            assigned.add(n.args[cp.index(s_)].id)
        passable = [n for n, v in env.items()
                    if v.type[0] not in ("msg", "file", "emptydict", "dropped", "none")
                    and not (v.type[0] == "list" and v.type[1] is None)]
        carried = [n for n in passable if n in assigned]
        fixed = [n for n in passable if n not in assigned]
        params = []
        head_args = []
        for ln, ty in self.extern_params():
            params.append("(%s : %s)" % (ln, ty))
            head_args.append(ln)
        env_aux = {}
        for n in fixed + carried:
            v = env[n]
            ln = v.lean if n.startswith("$") else lean_ident(n)
            env_aux[n] = Var(ln, v.type)
            params.append("(%s : %s)" % (ln, self.lean_type(v.type)))
        rest_var = self.fresh("rest")
        rt = self.result_type()

        def call_next(e, lst):
            args = list(head_args)
            for n in fixed:
                args.append(env_aux[n].lean)
            for n in carried:
                args.append(self.coerce(e[n].lean, e[n].type, env[n].type, st))
            return "(%s %s %s)" % (name, " ".join(args), lst)

        x2, env_body = self.loop_target(st, et, env_aux)
        self.loop_k.append(lambda e: call_next(e, rest_var))
        try:
            cons = self.block(body, env_body, lambda e: call_next(e, rest_var))
        finally:
            self.loop_k.pop()
        nil = self.block(rest, env_aux, k)
        implicit = (self.spec["implicit"] + " ") if self.spec.get("implicit") else ""
        text = "def %s %s%s : List %s → %s\n  | [] =>\n%s\n  | %s :: %s =>\n%s\n" % (
            name, implicit, " ".join(params), self.paren_type(et), rt, indent(nil, 6), x2, rest_var, indent(cons, 6))
        self.aux.append(text)
        return call_next(env, xs)

    # -- the whole function ----------------------------------------------------------------------------------
    def extern_params(self):
        out = []
        for key, (ln, t) in self.spec.get("externs", {}).items():
            out.append((ln, self.lean_type(t)))
        for key, (ln, pts, rt, raises) in self.spec.get("extern_funcs", {}).items():
            r = self.lean_type(rt)
            if raises:
                r = "Except Str %s" % (("(%s)" % r) if " " in r else r)
            out.append((ln, " → ".join([self.lean_type(p) for p in pts] + [r])))
        return out

    def result_type(self):
        spec = self.spec
        parts = []
        for s in spec.get("state", []):
            if s == "fs":
                parts.append("ProjFS")
            else:
                parts.append(self.lean_type(dict(spec["params"])[s]))
        if spec["ret"] != NONE:
            parts.append(self.lean_type(spec["ret"]))
        inner = "Unit" if not parts else (parts[0] if len(parts) == 1 else "(" + " × ".join(parts) + ")")
        return "Except Str %s" % (("(%s)" % inner) if (" " in inner and not inner.startswith("(")) else inner)

    def translate(self):
        spec = self.spec
        src, node = self.src.find(spec["file"], ast.FunctionDef, spec["func"])
        if node is None:
            raise Untranslatable(self.fn, None, "function not found in %s" % spec["file"])
        self.source_text = ast.get_source_segment(src, node)
        a = node.args
        if a.vararg or a.kwarg or a.kwonlyargs or a.posonlyargs:
            self.bad(node, "only plain positional parameters")
        pynames = [x_.arg for x_ in a.args]
        if pynames != [p for p, _ in spec["params"]]:
            self.bad(node, "parameters are %s, the signature table expects %s" % (pynames, [p for p, _ in spec["params"]]))
        # parameter defaults are ignored: the translated callers always pass every argument
        is_gen = any(isinstance(n, (ast.Yield, ast.YieldFrom)) for n in ast.walk(node))
        if is_gen != bool(spec.get("generator")):
            self.bad(node, "the function %s a generator, the signature table says otherwise" % ("is" if is_gen else "is not"))
        self.parser_vars = set()
        # names the function body (re)binds: assignment / loop / with targets
        bound = set()
        for n in ast.walk(node):
            if isinstance(n, ast.Name) and isinstance(n.ctx, (ast.Store, ast.Del)):
                bound.add(n.id)
            if isinstance(n, ast.Call) and ast.unparse(n.func) in self.group:
                for a_ in n.args:
                    if isinstance(a_, ast.Name):
                        bound.add(a_.id)         # may be re-bound by a mutating callee
            if isinstance(n, ast.Subscript) and isinstance(n.ctx, ast.Store) and isinstance(n.value, ast.Name):
                bound.add(n.value.id)
            if isinstance(n, ast.Call) and isinstance(n.func, ast.Attribute) and n.func.attr in ("append", "write") \
                    and isinstance(n.func.value, ast.Name):
                bound.add(n.func.value.id)
        self.py_names = {n.id for n in ast.walk(node) if isinstance(n, ast.Name)} | {x_.arg for x_ in a.args}
        self.stable_roots = {lean_ident(p) for p, t in spec["params"] if t != DROPPED and p not in bound}
        self.stable_roots |= {ln for ln, _ in self.extern_params()}
        env = {}
        params = []
        for ln, ty in self.extern_params():
            params.append("(%s : %s)" % (ln, ty))
        if spec.get("fs"):
            env["$fs"] = Var("fs", ("fs",))
            params.append("(fs : ProjFS)")
        for p, t in spec["params"]:
            if t == DROPPED:
                continue
            if t[0] == "rec":
                self.record(t[1])
            if p == "fs" and spec.get("fs"):
                self.bad(node, "a parameter named `fs` clashes with the file system parameter")
            env[p] = Var(lean_ident(p), t)
            if t == INI:
                self.parser_vars.add(p)
            params.append("(%s : %s)" % (lean_ident(p), self.lean_type(t)))
        for key, (ln, t) in spec.get("externs", {}).items():
            if t == INI:
                # `cfg_parser = _ConfigParser()`: the variable is the parser parameter
                for n in ast.walk(node):
                    if isinstance(n, ast.Assign) and ast.unparse(n.value) == key:
                        for tg in n.targets:
                            if isinstance(tg, ast.Name):
                                self.parser_vars.add(tg.id)
        if spec.get("generator"):
            env["$out"] = Var("out", spec["ret"])

        def fall_off(e):
            return self.ret(None, e, node)
        body = self.block(list(node.body), env, fall_off)
        if spec.get("generator"):
            body = "let out : %s := [];\n%s" % (self.lean_type(spec["ret"]), body)
        for key, (ln, _) in spec.get("externs", {}).items():
            if ln not in body and not any(ln in a_ for a_ in self.aux):
                self.bad(node, "the expression `%s` (abstracted as parameter `%s`) does not occur" % (key, ln))
        for key, (ln, _, _, _) in spec.get("extern_funcs", {}).items():
            if ln not in body and not any(ln in a_ for a_ in self.aux):
                self.bad(node, "the callee `%s` (parameter `%s`) is never called" % (key, ln))
        head = "def %s %s%s : %s :=" % (spec["name"], (spec["implicit"] + " ") if spec.get("implicit") else "",
                                       " ".join(params), self.result_type())
        return [self.const_defs[k_] for k_ in sorted(self.const_defs)] + list(self.aux), head + "\n" + indent(body, 2) + "\n"

    # the env type of the file system variable
    def lean_type_fs(self):
        return "ProjFS"


# the file system pseudo type is only ever passed as `fs`
_orig_lean_type = CfgTranslator.lean_type


def _lean_type(self, t):
    if t == ("fs",):
        return "ProjFS"
    return _orig_lean_type(self, t)


CfgTranslator.lean_type = _lean_type


# ----------------------------------------------------------------------------------
# the declarations generated from class definitions (Gen/F_configTypes.lean)
# ----------------------------------------------------------------------------------
def render_types(sources):
    tr = CfgTranslator(dict(name="configTypes", file="config.py", func="(class definitions)", params=[], ret=NONE),
                       sources, {})
    head = [
        "/- GENERATED by harness/translate_config.py from the class definitions of src/bumpver/config.py.",
        "   Do not edit.  `TagScope` (enum), `Config`, `ProjectContext` (NamedTuples). -/",
    ]
    try:
        members = tr.enum("TagScope")
        out = []
        out.append("/-- `config.TagScope` (a str-valued enum) -/")
        out.append("inductive TagScope\n%s\n  deriving DecidableEq, Repr" % "\n".join("  | %s" % lean_ident(m) for m, _ in members))
        out.append("")
        out.append("/-- `member.value` -/")
        out.append("def TagScope.value : TagScope → Str\n%s" % "\n".join(
            "  | .%s => %s" % (lean_ident(m), lean_str(v)) for m, v in members))
        out.append("")
        out.append("/-- `TagScope(value)`: `none` = ValueError (no member has this value) -/")
        chain = "none"
        for m, v in reversed(members):
            chain = "if s == %s then some .%s\n  else %s" % (lean_str(v), lean_ident(m), chain)
        out.append("def TagScope.ofValue (s : Str) : Option TagScope :=\n  %s" % chain)
        out.append("")
        out.append("/-- `list(TagScope)` -/")
        out.append("def TagScope.all : List TagScope := [%s]" % ", ".join(".%s" % lean_ident(m) for m, _ in members))
        out.append("")
        for rname in ("Config", "ProjectContext"):
            r = tr.record(rname)
            fname, cls = r["source"]
            out.append("/-- `%s.%s` (NamedTuple) -/" % (fname[:-3], cls))
            out.append("structure %s %s where" % (r["leanname"], r.get("params", "")))
            for f, path, ft in r["fields"]:
                out.append("  %s : %s" % (path, tr.lean_type(ft)))
            if rname == "Config":
                out.append("  deriving DecidableEq, Repr")
            out.append("")
    except Untranslatable as ex:
        text = "\n".join(head[:1] + ["", "   UNTRANSLATABLE: %s -/" % str(ex).replace("-/", "- /"), ""])
        return TYPES_FILE, text, ex
    lines = head + ["import BumpverVerif.Model.ConfigPy", "namespace BV.GenF.Cfg", ""] + out + ["end BV.GenF.Cfg", ""]
    return TYPES_FILE, "\n".join(lines), None


def render(spec, sources, group):
    fname = "F_%s.lean" % spec["name"]
    tr = CfgTranslator(spec, sources, group)
    where = "src/bumpver/%s" % spec["file"]
    try:
        aux, body = tr.translate()
    except Untranslatable as ex:
        text = getattr(tr, "source_text", None)
        lines = [
            "/- GENERATED by harness/translate_config.py. Do not edit.",
            "   source   : %s" % where,
            "   function : %s" % spec["func"],
            "   sha256   : %s" % (tf.sha256(text) if text else "(function not found)"),
            "",
            "   UNTRANSLATABLE: %s" % str(ex).replace("-/", "- /"),
            "   (no definition is generated; BV.tie_%s cannot compile until this is resolved) -/" % spec["name"],
            "",
        ]
        return fname, "\n".join(lines), ex
    except Exception as ex:  # never a silent success
        lines = [
            "/- GENERATED by harness/translate_config.py. Do not edit.",
            "   source   : %s" % where,
            "   function : %s" % spec["func"],
            "",
            "   UNTRANSLATABLE: the source could not be read/parsed/translated: %s: %s -/"
            % (type(ex).__name__, str(ex).replace("-/", "- /")),
            "",
        ]
        return fname, "\n".join(lines), ex
    lines = [
        "/- GENERATED by harness/translate_config.py from the Python AST. Do not edit.",
        "   source   : %s" % where,
        "   function : %s" % spec["func"],
        "   sha256   : %s  (of the function's source text) -/" % tf.sha256(tr.source_text),
        "import %s" % TYPES_MODULE,
    ]
    # the other translated functions this one calls
    called = set()
    _, node = sources.find(spec["file"], ast.FunctionDef, spec["func"])
    for n in ast.walk(node):
        if isinstance(n, ast.Call) and ast.unparse(n.func) in group and ast.unparse(n.func) != spec["func"]:
            called.add(group[ast.unparse(n.func)]["name"])
    for c in sorted(called):
        lines.append("import BumpverVerif.Gen.F_%s" % c)
    lines.append("set_option linter.unusedVariables false")
    lines.append("namespace BV.GenF")
    lines.append("")
    for d in aux:
        if not d.startswith("/--"):
            lines.append("/-- a loop of `%s.%s` -/" % (spec["file"][:-3], spec["func"]))
        lines.append(d)
    lines.append("/-- `%s.%s` -/" % (spec["file"][:-3], spec["func"]))
    lines.append(body)
    lines.append("end BV.GenF")
    lines.append("")
    return fname, "\n".join(lines), None


def generate(report=None):
    """{filename: content} for lean/BumpverVerif/Gen/"""
    sources = tf.Sources()
    group = {s["func"]: s for s in FUNCS}
    out = {}
    name, content, err = render_types(sources)
    out[name] = content
    if report is not None:
        report.append(("(class definitions)", name, err))
    for spec in FUNCS:
        fname, content, err = render(spec, sources, group)
        out[fname] = content
        if report is not None:
            report.append((spec["func"], fname, err))
    return out


def main():
    rep = []
    files = generate(rep)
    gen = os.path.join(os.path.dirname(HERE), "lean", "BumpverVerif", "Gen")
    only = [a for a in sys.argv[1:] if not a.startswith("--")]
    if "--write" in sys.argv:
        for name, content in files.items():
            path = os.path.join(gen, name)
            old = open(path, encoding="utf-8").read() if os.path.exists(path) else None
            if old != content:
                with open(path, "w", encoding="utf-8") as f:
                    f.write(content)
                print("wrote", name)
    for func, fname, err in rep:
        print("%-42s %-42s %s" % (func, fname, "ok" if err is None else "UNTRANSLATABLE: %s" % err))
    if "--show" in sys.argv:
        for name, content in files.items():
            if only and not any(o in name for o in only):
                continue
            print("=" * 20, name)
            print(content)
    return 0


if __name__ == "__main__":
    sys.exit(main())
