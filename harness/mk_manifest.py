#!/usr/bin/env python3
"""Writes /verif/MANIFEST.json from the table below (kept in one place so the
manifest stays valid and current)."""
import json, os
VERIF = os.path.dirname(os.path.dirname(os.path.abspath(__file__)))

ALL = ["C%02d" % i for i in range(1, 21)]

# id -> (level text, level note, technique, design ref)
CLAIMED = {
 "C17": (
  "Lean 4 theorems C17_closed/int_strict/lex_strict/width/max_only/chain_int/chain_lex about the executable model of the BUILD step (padding + lexid.next_id) for ALL digit strings and ALL chain lengths (induction, no bound); the model is tied to the real lexid/_incr_numeric by an exhaustive correspondence run (all ids up to 4 digits quick / 6 digits thorough, random longer ids, chains).",
  "Trusted: Lean kernel, axioms propext/Classical.choice/Quot.sound only; correspondence check ties BV.bumpBid to lexid.next_id and v2version._incr_numeric (third-party lexid is modelled, not verified).",
  "Lean 4 proof (induction on digit lists) + exhaustive model/implementation correspondence",
  "DESIGN.md section 7, C17"),
 "C11": (
  "Lean 4 theorems C11_decision/no_crash/pattern_file_always_blocks/untracked_unrelated_never_blocks/clean about the executable model of VCSAPI.status + assert_not_dirty, for EVERY porcelain XY status pair, every path git prints verbatim, every file list and both --allow-dirty settings; tied to the code by op `dirty` on status text produced by a real git for every file state and on synthetic porcelain text, plus an end-to-end oracle with real git (exit code, bytes, HEAD, commit contents). Partial: real git's behaviour is exercised, not modelled; C-quoted paths and renames are known finding F-C11-quoted.",
  "Trusted: Lean kernel + standard axioms; correspondence check; git itself (exercised). The abort-before-rewrite ordering is C10's theorem.",
  "Lean 4 proof (structural induction over status lines) + correspondence on real git output",
  "DESIGN.md section 7, C11"),
 "C12": (
  "Lean 4 theorems C12_*: for every value-carrying git/hg command of the GENERATED template table and ALL strings the argv is the documented token list with each value as exactly one element (C12_git_commit_argv … C12_hg_push_tag_argv), the general C12_single_argument over the table shape (C12_table_shape checked on the regenerated table), C12_message_render for str.format with the documented placeholders, and negative witnesses for the repaired format-then-split defect. Tied to the code by ops shlex/fmt/argv/submsg and end-to-end update runs with fake git/hg (NUL-separated argv log) and real git objects.",
  "Trusted: Lean kernel + standard axioms; translator for VCS_SUBCOMMANDS_BY_NAME; str.format and shlex.split are modelled (tied by correspondence), hg itself is absent (fake executable).",
  "Lean 4 proof over a regenerated table (decide +kernel on the table, induction for the general lemmas) + correspondence",
  "DESIGN.md section 7, C12"),
 "C05": (
  "Lean 4 theorems C05_*: the reset rule (C05_reset_rule: a resettable part is reset iff some part to its left changed, for every field list), the increment rules (C05_incr_numeric), BUILD strictly increasing and TAG carried (via C17), final-has-no-NUM, --pin-date keeps parts incl. zero values, calendar never backwards (guard), optional groups omitted exactly when all parts zero (C05_optional_omission, all nestings) — about the executable model of v2version incr/_incr_numeric/_reset_rollover_fields/_format_segment_tree over the GENERATED tables. Tied to the code by ops parse/format/pattern_fields/incr and judged on the implementation by an independent reference reading of the README rules that predicts the exact new version string (also through `bumpver test`). SOURCE-LEVEL TIE: v2version._is_cal_gt and _ver_to_cal_info are translated from the Python AST to Lean on every run (harness/translate_funcs.py -> Gen/F_*.lean) and PROVED equal to the hand model (Proofs/Tie_*.lean, obligations of this check): an edited comparison, dropped conjunct, reordered elif or truthiness-for-None change in that function breaks the proof deterministically; a renamed local or commuted conjunct does not.",
  "Trusted: Lean kernel + standard axioms; translator (tables, formatter kinds); correspondence; Python re / datetime modelled. Week 53 under WW/UU parts is known finding F-C02-week53.",
  "Lean 4 proof (induction over field lists and segment trees) + correspondence + reference-implementation oracle + function-level translation tie",
  "DESIGN.md section 7, C05"),
 "C10": (
  "Lean 4 theorems C10_* (14) about the executable model BV.plan of `bumpver update`'s step sequencing for ALL configurations, flag combinations, environments, file lists and EVERY failure position: rejection of contradictory flags first, documented order, gating of commit/tag/push/hooks, --dry purity, --no-fetch, dirty blocks before rewrite, stop at first failure, hook failure stops, hook environment, completeness on exit 0. Tied to the code by op plan: real `bumpver update` runs with fake git/hg on PATH (argv log, hook markers with both env vars, rewrite position probe) at random lattice points with failure injected at each command index. SOURCE-LEVEL TIE: cli._parse_vcs_options is (through an explicit abstraction of Config to the model's PlanCfg; the two inputs click rejects — empty hook path, unknown scope — are explicit hypotheses) translated from the Python AST to Lean on every run (harness/translate_funcs.py -> Gen/F_*.lean) and PROVED equal to the hand model (Proofs/Tie_*.lean, obligations of this check): an edited comparison, dropped conjunct, reordered elif or truthiness-for-None change in that function breaks the proof deterministically; a renamed local or commuted conjunct does not.",
  "Trusted: Lean kernel + standard axioms; correspondence sampling of the lattice; hg binary absent (fake executable); click option parsing exercised, not modelled.",
  "Lean 4 proof (phase invariants over an effect trace) + correspondence with fake VCS executables + function-level translation tie",
  "DESIGN.md section 7, C10"),
 "C14": (
  "Lean 4 theorems C14_*: calKey of every coherent calendar shape (22 shapes, padded/unpadded irrelevant for the key) is monotone in the date for ALL ordinals (C14_step, C14_fields_monotone, C14_dates_monotone; no year bound), is_valid_week_pattern rejects exactly the Y+V / G+W|U pairings (C14_rejected_iff) and each rejected pairing is non-monotone (witness dates), the future guard is the lexicographic comparison (C14_guard*). Tied to the code by op calinfo (thorough: every date 1000-01-01..9999-12-31) and weekpat; implementation oracle renders consecutive days through format_version and orders them with `packaging`. SOURCE-LEVEL TIE: v2version._is_cal_gt, is_valid_week_pattern and version.quarter_from_month are translated from the Python AST to Lean on every run (harness/translate_funcs.py -> Gen/F_*.lean) and PROVED equal to the hand model (Proofs/Tie_*.lean, obligations of this check): an edited comparison, dropped conjunct, reordered elif or truthiness-for-None change in that function breaks the proof deterministically; a renamed local or commuted conjunct does not.",
  "Trusted: Lean kernel + standard axioms; datetime/strftime are modelled (tied by the all-dates correspondence); F-C14-doy366 is a known finding (hand-written day 366 of a common year).",
  "Lean 4 proof (omega on a 400/100/4/1 year decomposition + decide over month tables) + exhaustive correspondence + function-level translation tie",
  "DESIGN.md section 7, C14"),
 "C16": (
  "Lean 4 theorems C16_* (23): cmpKey/verLe is a total preorder on ALL parsed values with equality exactly key equality; agreement with an independently shaped PEP 440 spec (zero-padding vs stripping, phase ranks vs ±Infinity) for all well-formed versions and C16_parse_wf; canonical printing round trip incl. local segment, injectivity, idempotence; every legacy value below every PEP 440 value. Tied to the vendored setuptools_v65_version by ops pep_parse/pep_str/pep_cmp; implementation oracle checks the order laws and agreement with `packaging` 26.3. SOURCE-LEVEL TIE: setuptools_v65_version._parse_letter_version is (for every word of the model's word tables in every letter case, the implicit 0 and the implicit post release) translated from the Python AST to Lean on every run (harness/translate_funcs.py -> Gen/F_*.lean) and PROVED equal to the hand model (Proofs/Tie_*.lean, obligations of this check): an edited comparison, dropped conjunct, reordered elif or truthiness-for-None change in that function breaks the proof deterministically; a renamed local or commuted conjunct does not.",
  "Trusted: Lean kernel + standard axioms; the hand-written recogniser of VERSION_PATTERN is tied to the regex by correspondence; ASCII input only (non-ASCII answers unsupported).",
  "Lean 4 proof (lawful comparison, spec refinement, parser round trip) + correspondence + function-level translation tie",
  "DESIGN.md section 7, C16"),
 "C01": (
  "Lean 4 theorems C01_*: the gate accepts only a candidate whose first regex match consumes the whole string (C01_parse_is_full_match) and that is strictly greater in the PEP 440 order of C16 (C01_gate_sound, C01_not_greater_rejected incl. PEP 440-equal respellings); `bumpver test` and the version part of `bumpver update` announce only such versions, relative to the start version of C09 (C01_test_sound, C01_update_sound); every other outcome is a non-zero exit and never reaches the rewrite step (C01_otherwise_nonzero, C01_rejected_no_rewrite) — for ALL patterns, versions, flag sets, dates and --set-version targets. Tied to the code by op cli_test vs `bumpver test` through click's CliRunner; implementation oracle: reference-regex full match + packaging/vendored order over flags x dates x derived --set-version targets, legacy composites with trailing junk, update dry/real on generated projects.",
  "Trusted: Lean kernel + standard axioms; Python re modelled (fragment) and tied by correspondence; click parsing exercised; legacy `{…}` patterns are covered by the implementation oracle only (their engine is C20).",
  "Lean 4 proof (decision logic over the gate) + correspondence + implementation oracle",
  "DESIGN.md section 7, C01"),
 "C03": (
  "Lean 4 theorems C03_*: surviving matches are pairwise disjoint and in bounds, success means every configured pattern was found, and C03_every_occurrence: after a successful rewrite EVERY surviving match shows the new version rendered through its own pattern at its shifted position — also several different patterns on one line — for ALL line lists and pattern lists; `{version}` normalises to the version pattern. Tied by op rewrite_content vs v2rewrite.rfd_from_content; implementation oracle: real `bumpver update` on generated projects (1..5 files x 1..4 patterns, shared lines, four line-ending regimes), every file compared byte for byte with the layout re-materialised for the new version by an independent renderer. SOURCE-LEVEL TIE: parse._has_overlap is translated from the Python AST to Lean on every run (harness/translate_funcs.py -> Gen/F_*.lean) and PROVED equal to the hand model (Proofs/Tie_*.lean, obligations of this check): an edited comparison, dropped conjunct, reordered elif or truthiness-for-None change in that function breaks the proof deterministically; a renamed local or commuted conjunct does not.",
  "Trusted: Lean kernel + standard axioms; regex fragment modelled; the independent renderer (harness/refimpl.py + packaging for the PEP 440 form) judges the implementation. Patterns whose occurrences overlap another configured pattern's text are outside the property's quantifier (generator excludes them).",
  "Lean 4 proof (splice bookkeeping over sorted disjoint spans) + correspondence + independent re-materialisation + function-level translation tie",
  "DESIGN.md section 7, C03"),
 "C04": (
  "Lean 4 theorems C04_*: join(sep, split(sep, s)) = s for EVERY content and non-empty separator; detected separator is CRLF/CR/LF; line count, unmatched lines and the text before/after a span are preserved; content identity when nothing matches; files not named in the configuration are never written. PARTIAL: that the bytes on disk are the UTF-8 encoding with untranslated newlines depends on open(newline='', encoding='utf-8'), which no model exhibits — exercised by real update runs in-process and as subprocesses under LC_ALL=C with UTF-8 mode and locale coercion off, bytes compared with the independently re-materialised layout. SOURCE-LEVEL TIE: parse._has_overlap and rewrite.detect_line_sep are translated from the Python AST to Lean on every run (harness/translate_funcs.py -> Gen/F_*.lean) and PROVED equal to the hand model (Proofs/Tie_*.lean, obligations of this check): an edited comparison, dropped conjunct, reordered elif or truthiness-for-None change in that function breaks the proof deterministically; a renamed local or commuted conjunct does not.",
  "Trusted: Lean kernel + standard axioms; Python's codec/newline handling and the OS (exercised, not modelled). Non-ASCII file NAMES under an ASCII locale are the OS's business and excluded from the C-locale runs.",
  "Lean 4 proof (structural induction on List Char) + byte-level runs under two locales + function-level translation tie",
  "DESIGN.md section 7, C04"),
 "C06": (
  "Lean 4 theorems C06_*: rewriteFiles over an abstract file system is all-or-nothing (C06_all_or_nothing: any error leaves every file as it was), fails exactly when a configured file is missing or fails to validate (C06_error_iff), a pattern without surviving match fails its file, success writes only validated contents, and nothing mutating happens after a failed rewrite phase (via the plan model); negative witness for the repaired lazy loop. Tied by op rewrite_files on real temp files; implementation oracle: fault enumeration — every configured file removed, blanked, every (file, pattern) occurrence removed — with and without fake git, dry before real.",
  "Trusted: Lean kernel + standard axioms; the file system is abstract (path -> text); OS-level write failures (disk full, permissions) are not modelled.",
  "Lean 4 proof (induction over the file list) + fault enumeration on the real CLI",
  "DESIGN.md section 7, C06"),
 "C09": (
  "Lean 4 theorems C09_*: matching tags = listed tags valid for the pattern; the latest tag is a maximum under C16's order (first of the maximal ones); start version per scope (default: greater of config and greatest matching tag; global/branch: greatest matching tag; config when none matches); inserting a non-matching tag anywhere changes nothing and never breaks resolution; an accepted new version is not a matching tag when the uniqueness check runs and is strictly above every matching tag of the scope otherwise — for ALL tag lists. Tied by ops latest_tag/start_version/gate vs cli.py; implementation oracle via `bumpver show`/`update` with tags served by a fake git, expectation from a reference regex + date check.",
  "Trusted: Lean kernel + standard axioms; regex fragment and datetime modelled; F-C09-ignore-vcs-tag (no uniqueness check under --ignore-vcs-tag) is a known finding; non-ASCII tags answer unsupported in the model.",
  "Lean 4 proof (maximum of a list under a total preorder) + correspondence + fake-git oracle",
  "DESIGN.md section 7, C09"),
 "C07": (
  "Lean 4 theorems C07_*: the regenerated escape table has the right shape and covers every regex metacharacter except the documented semantic ones (C07_table_shape, C07_table_complete — the statement that names the missing character when an entry is dropped); the sequential str.replace loop is a pointwise map for EVERY string (C07_escape_pointwise); literal pattern text (any characters but upper-case letters, bare brackets, backslash, ^, $; `\\[` `\\]` for brackets) compiles through the whole string pipeline to exactly the literal-sequence regex (C07_literal_compiles, C07_anchored), which finds exactly the lines containing the text (C07_lits_*). Tied by ops compile_str/compile_search; implementation oracle exhaustive over short literals (length 2 quick / 3 thorough) and random long ones, alone and around parts, plus `bumpver grep`.",
  "Trusted: Lean kernel + standard axioms; translator of RE_PATTERN_ESCAPES/PART_PATTERNS; Python re on the fragment (modelled). Backslash and interior ^/$ are known findings F-C07-backslash / F-C07-anchor.",
  "Lean 4 proof (string-surgery invariants + parser induction over a regenerated table) + exhaustive short-literal oracle",
  "DESIGN.md section 7, C07"),
 "C13": (
  "Lean 4 theorems C13_*: --dry is pure (no rewrite, hook or mutating VCS event in the plan model), the dry path and the write path compute the same new lines, a clean dry run implies a successful real run that writes exactly those lines, and the model's unified-diff applier is strict and complete w.r.t. an explicit `Describes` relation (C13_apply_sound/_complete, C13_hunk_counts). PARTIAL: difflib.unified_diff is validated per instance, not proved: the text printed by the real `update --dry` is parsed and applied by the proved-strict applier and must reproduce the files of a real run with the same arguments.",
  "Trusted: Lean kernel + standard axioms; difflib (validated per instance); consistent line endings as the property states.",
  "Lean 4 proof (applier soundness/completeness, path equivalence) + per-instance translation validation of difflib",
  "DESIGN.md section 7, C13"),
 "C15": (
  "Lean 4 theorems C15_* (33). Table level over the regenerated tables (substitutions unpadded, padded parts covered, tag tables consistent, short tags = C16's PEP 440 segments, README conversions). TREE level (Model/PepTree.lean mirrors _convert_to_pep440 step by step; Model/PepOfRecord.lean says which PEP 440 version a record denotes): the text written for {pep440_version} (a) is matched IN FULL by the derived search pattern and reads back with every part equal (C15_derived_accepts_own_rendering / _of_original, domain transfer C15_vok_transfer*), (b) is in the README's normal form (C15_normal_form_parts), (c) PARSES, with the model of the vendored PEP 440 parser, to exactly the version the record denotes — release numbers, pre/post/dev segment and number (C15_derived_parses, C15_derived_content), (d) parses to the SAME PepVersion as the version string itself, whatever zero padding, v prefix, '-' separator, long tag name or missing NUM the version pattern uses (C15_version_parses_equal, C15_version_key_equal), and (e) equals the PEP440 line of test/show up to normalisation (C15_equals_printed_pep440: str(parse_version(version)) = pepStr ver and parsePep (pepStr ver) = ver) — for every pattern tree with the decidable shape pepShaped and every record in the domain (vok, pepReady, pepCoherent; each hypothesis with a proved witness that it is necessary), and every README pattern is pepShaped (C15_readme_shaped, kernel-evaluated). PARTIAL only in that bumpver converts and renders by string surgery: tree = string pipeline is kernel-proved for the README patterns (C15_readme_tree_tie) and CHECKED per generated pattern by the driver op pep_tie; patterns outside pepShaped (mandatory TAG, odd separators) are the known finding F-C15-odd-shapes.",
  "Trusted: Lean kernel + standard axioms; translator; the model of the vendored PEP 440 parser (tied to the code by C16's correspondence and to `packaging` by C16's oracle); the tokenizer tie tree <-> string surgery is proved for tokSafe trees (Props/C02Tie.lean: compile_tie, format_tie; 74 % of the derived PEP 440 trees of generated patterns) and checked per pattern by the driver op pep_tie otherwise. Patterns outside the README shapes: known finding F-C15-odd-shapes.",
  "Lean 4 proof: table facts by kernel evaluation; structural induction over pattern trees for acceptance, read-back, normal form; parser lemmas (digit runs, letter segments) for 'denotes the same PEP 440 version'; correspondence + packaging oracle for the string-level tie",
  "DESIGN.md section 7, C15"),
 "C08": (
  "Lean 4 theorems C08_* about the version state (config value, tag list) under ANY sequence of update invocations of ANY length: consistency (config valid, no tag above it) is an invariant of every invocation, successful steps strictly increase (C16 order), failed ones change nothing, `show` agrees with the config, the newest tag is the config version when tagging, a further update is always possible — by induction over the operation list, built on C09's startVersion and C01's gate; the file side is C03/C06 and the commit/tag side C10. PARTIAL: real git is exercised, not modelled: seeded histories (random flags, non-decreasing dates, failing invocations, --no-commit/--no-tag-commit, unrelated commits, branch switches) run against real git; after each step config, every occurrence (re-materialised from an independently tracked reference state), `show`, tags, commit count and commit contents are checked, and the model's hstep is run on the same history (op history).",
  "Trusted: Lean kernel + standard axioms; git itself (exercised); the reference state tracker harness/refimpl.py judges the implementation. Tag names git refuses (patterns with ~ ^ : ? * [ \\ or blanks) cannot be tagged at all and are excluded from the histories.",
  "Lean 4 proof (invariant by induction over histories; refinement of C01/C09) + real-git history runs",
  "DESIGN.md section 7, C08"),
 "C02": (
  "Lean 4 theorems C02_*. (1) TABLE TIE on the REGENERATED tables: every value a part can take is rendered (PART_FORMATS, classified from the formatter's Python AST) to text that the part's own regex (PART_PATTERNS, parsed by the model's regex-syntax parser) consumes in full — alone, before a non-digit continuation (maximal munch; longest alternative first is CHECKED) and, for fixed-width parts, before a digit — and that reads back as the same value: finite calendar domains by kernel evaluation over the whole domain, unbounded numeric parts and BUILD by induction on digit lists, years by the four-digit lemma, tags over the tag tables; cal_info's outputs lie inside those domains for EVERY valid date (C02_calinfo_domains) except week 53 (C02_week53_witness = known finding). (2) COMPOSITION over whole patterns, proved on the pattern tree for EVERY well-formed tree (any nesting of optional groups, any literal separators) and EVERY record in the domain of its rendered parts: C02_accepted_in_full (the first success of the compiled regex consumes the whole rendered text and captures exactly the rendered part texts), C02_roundtrip_ast / C02_roundtrip_of_date (read back through parse_field_values_to_vinfo/_to_cinfo with every part equal, all-zero groups omitted again, re-rendered byte for byte; calendar of any valid date), C02_tagCoh_invariant (the coherence hypothesis is preserved by reading and bumping). The tie between the tree and bumpver's STRING SURGERY (escape loop, `while True` bracket substitution, `_iter_part_patterns`, sort by (-end,-len), right-to-left substitution, `re.compile`; `_parse_segtree`, `_format_segment_tree`, `_format_segment`) is now PROVED IN GENERAL (Props/C02Tie.lean): compile_tie (compileRe (text p) = Pat.compile p), tokenize_tie, format_tie (formatVersion v (text p) = render v p) and C02_roundtrip_code (the round trip stated on formatVersion / parseVersionInfo themselves) for EVERY tree satisfying the decidable, local side condition tokSafe (literal text in the C07 language, no part name beginning at a literal or straddling a token, each field once, contained part names harmless); tie_needs_condition is the kernel-checked witness that a condition is needed (tree NUM·MM, text NUMMM). All 18 README patterns are tokSafe (C02Tie_readme_tokSafe) and the driver reports per run how many generated patterns are (quick tier: 1250 of 1250). Table facts the proof needs are `decide` obligations over the REGENERATED tables. HEADLINE (Props/C02Code.lean): C02_code — for every tokSafe tree and every record in its domain the round trip holds of GenF.formatVersion / GenF.parseVersionInfo / GenF.isValid, the definitions TRANSLATED FROM THE PYTHON SOURCE of format_version / parse_version_info / is_valid on every run (accepted in full, every part equal, re-rendered byte for byte, is_valid true), C02_code_of_date for records reachable by bumping, C02_code_readme for all README patterns with no pattern hypothesis left; the group-name hypothesis of the read-side ties and the hypothesis of tie_incr are theorems for tokSafe pattern texts. Oracle on the implementation: render -> parse -> fields equal -> re-render identical -> next run accepts; thorough tier every date 2001..2099 through every calendar part.",
  "Trusted: Lean kernel + standard axioms; translator (both tables, formatter shapes); Python re modelled on the fragment (tied by compile_search/re_search ops); the tokenizer tie tree <-> string surgery is proved under the decidable side condition tokSafe (Props/C02Tie.lean) and checked per pattern outside it. Week 53 under WW/0W/UU/0U: known finding F-C02-week53.",
  "Lean 4 proof: per part over regenerated tables (decide +kernel on whole domains, induction on digit lists) and structural induction over pattern trees with a list-of-successes regex semantics (composition, read-back) + correspondence + round-trip oracle",
  "DESIGN.md section 7, C02"),
 "C20": (
  "Lean 4 theorems C20_* (39) about the legacy engine over the REGENERATED v1 tables (incl. the run-time composite initialisation, C20_composite_init). (1) Per-part table tie (finite domains kernel-evaluated through the real format path, unbounded parts by maximal-munch lemmas, tags); dispatch consistency (C20_dispatch, with the {foo} witness); {pycalver} strictness on the record (C20_pycalver_strict/_release_tuple/_string/_chain); strict increase through the gate (C20_gate_greater, C20_test_greater). (2) COMPOSITION over whole legacy patterns, proved on the legacy pattern tree (Model/V1Tree.lean, composites expanded): C20_tree_accepted_in_full (re.match of the compiled regex consumes the whole rendered text and captures exactly the rendered part texts), C20_tree_roundtrip / _of_date (the record read back by _parse_pattern_groups/_parse_field_values agrees on every part and re-renders identically; the calendar-consistency hypothesis calOk is necessary, C20_calOk_needed_witness, and holds for every real date), and through the model's STRING pipeline for 18 documented patterns ({pycalver}, {semver}, the _normalized_pattern forms, combinations): C20_roundtrip_documented, C20_is_valid_documented (tree compile = string compile as a real equality, kernel-evaluated; render tie on sample records). PARTIAL: the string renderer (FULL_PART_FORMATS + str.format) = tree renderer beyond those patterns is validated by ops v1_format/v1_parse/v1_incr and the render->parse->re-render oracle, chains of 150 / 1,000 bumps (also from all-nines ids), dispatch spied on incr_dispatch/_is_valid_version/_parse_config, real `bumpver update` on legacy projects (also with a non-UTF-8 file).",
  "Trusted: Lean kernel + standard axioms; translator (v1 tables, pep440 map from the AST); regex fragment (the empty-iteration nuance of mRep is documented); rough-edge parts are known findings F-C20-dom-short/-doy-short/-padded-bid/-week-parts/-dispatch.",
  "Lean 4 proof per part and on the version record over regenerated tables, structural induction over legacy pattern trees (composition, read-back) + kernel evaluation of the tree/string tie for the documented patterns + correspondence + chain oracle",
  "DESIGN.md section 7, C20"),
 "C18": (
  "Lean 4 theorems C18_* about the executable model of config.py's post-parser logic: for EVERY expressible abstract configuration the INI path (parseCfgPost on the raw dict configparser yields, [bumpver] or legacy [pycalver]) and the TOML path (parseTomlPost, [tool.bumpver] / [bumpver] / [pycalver]) give the SAME effective settings under the same environment (C18_equiv, C18_sections); tag/push require commit (C18_requires_commit); the config file is always among the files with its own current_version line pattern (C18_self_pattern); every generated true spelling in any case is True, everything else False (C18_bool_spellings); negative witness for quoted booleans. PARTIAL: configparser and toml are parameters — on every generated configuration the check verifies that the real parsers return exactly the raw dicts the theorem assumes (op abs_raw), compares the real readers with the model, and runs `config.init` / `bumpver show` on sibling projects in every format.",
  "Trusted: Lean kernel + standard axioms; translator (bool spellings and defaults read from the Python AST); configparser/toml assumed (checked per instance); toml 0.10 mis-reads some valid TOML (generator skips those encodings). Quoted booleans: known finding F-C18-quoted-bool.",
  "Lean 4 proof (reader equivalence on an abstract configuration) + per-instance check of the parser assumption + sibling-project oracle",
  "DESIGN.md section 7, C18"),
 "C19": (
  "Lean 4 theorems C19_* about `init` for ALL worlds (functions from file names to {absent, empty, unrelated, has-section}, not the 2^8 samples): a file that already holds a section is always preferred (C19_prefers_section), otherwise the first existing candidate in the GENERATED order, else bumpver.toml (C19_pick_order/_first/_candidates); the write is an append with the old content as prefix and no other file touched (C19_prefix); --dry and a refusal write nothing; the default text is well formed for every world (one section header of the right dialect, current_version = <year>.1001-alpha, a file_patterns entry for the config file: C19_text_wellformed, C19_initial_version); a second init re-picks the same file and refuses when it parses (C19_second_refuses). PARTIAL: that configparser/toml accept old ++ appended text is a parameter, validated by running init / show / init --dry / second init on every world (quick: sample; thorough: all 8,192 worlds x content kinds).",
  "Trusted: Lean kernel + standard axioms; translator (candidate list and template constants from the AST/module); parsers assumed (validated over the whole world space).",
  "Lean 4 proof over all worlds + exhaustive world enumeration against the real CLI",
  "DESIGN.md section 7, C19"),
}

PENDING_REASON = "not yet covered: model/theorems for this property are still being built (see DESIGN.md section 10 for the order of work); no check is claimed until its theorems are proved and tied to the code"


def registered_suffix(pid):
    """what harness/ties.json registers for this property beyond Props/<pid>.lean: source-level ties (Python function translated from its AST
    on every run and PROVED equal to the hand model) and theorems about the composed model of the whole `update` command"""
    p = os.path.join(VERIF, "harness", "ties.json")
    if not os.path.exists(p):
        return "", ""
    entries = json.load(open(p)).get(pid, [])
    funcs, upd = [], []
    for e in entries:
        if e.get("python"):
            if e["python"] not in funcs:
                funcs.append(e["python"])
        elif e["module"].endswith(("Props.Update", "Props.UpdateV1")):
            upd.append(e["theorem"])
    text, tech = "", ""
    if upd:
        text += (" COMPOSED MODEL of the whole `bumpver update` command (Model/Update.lean, and Model/UpdateV1.lean for legacy {…} patterns: version decision, dirty check, rewrite phase and VCS plan composed as cli.update "
                 "composes them; outcome = files afterwards, ordered event trace, exit code): theorems %s hold for ALL inputs and are obligations of this check; tied to the real CLI by op "
                 "update_full / update_full_v1 (generated projects with real files x flag/config lattice x tag and status listings x faults x failure positions, compared on exit code, event trace and "
                 "the content of every configured file)." % ", ".join(upd))
        tech += " + end-to-end theorems on the composed update model with CLI-level correspondence"
    if funcs:
        text += (" FURTHER SOURCE-LEVEL TIES (harness/ties.json): %s are translated from their Python AST to Lean on every run (harness/translate_*.py -> Gen/F_*.lean) and PROVED equal "
                 "to the hand model for all inputs (Proofs/Tie_*.lean); each tie is an obligation of this check: a semantic edit of one of these functions breaks a proof deterministically "
                 "(or leaves the translated subset, which breaks it too), a behaviour-preserving rewrite does not." % ", ".join(funcs))
        tech += " + function-level translation ties"
        text += (" The translators' TRUSTED PRIMITIVES that are plain str/list/dict/sort/date/re.sub functions are compared with CPython on every run of this check "
                 "(driver op prim, harness/props/prims.py).")
    if pid in ("C04", "C06", "C13", "C20"):
        text += (" LEGACY ENGINE END TO END (harness/props/v1e2e.py): real `update --dry` and `update` on generated legacy projects (renderings that get shorter, several "
                 "patterns per file and line, all line endings, BOM, toml and setup.cfg, a pattern without a match) against an independently built expectation.")
    if pid == "C16":
        text += " The model-side matcher groupsOf (proved to satisfy the hypothesis SearchOk of the Version.__init__ ties) is compared with the real VERSION_PATTERN regex (op pep_groups)."
    return text, tech


def main():
    checks = []
    for pid in ALL:
        if pid in CLAIMED:
            text, note, tech, ref = CLAIMED[pid]
            t2, k2 = registered_suffix(pid)
            text += t2
            if "function-level translation tie" in tech:
                k2 = k2.replace(" + function-level translation ties", "")
            tech += k2
            checks.append({
                "property_id": pid,
                "quick_cmd": "./check %s --tier quick" % pid,
                "thorough_cmd": "./check %s --tier thorough" % pid,
                "evidence_file": "evidence/%s.json" % pid,
                "replay_cmd_template": "./check %s --replay {path}" % pid,
                "engine": "lean4-model+correspondence",
                "level_claimed": {"category": "proof", "text": text, "design_ref": ref},
                "level_note": note,
                "technique": tech,
            })
    man = {
        "version": 1,
        "setup_cmd": "cd lean && lake build driver BumpverVerif",
        "hooks": {
            "guard": "MBARKHAU_BUMPVER_VERIF",
            "enable": "no hooks are needed: every check observes bumpver from outside (public functions via harness/impl_adapter.py, click CliRunner, fake git/hg on PATH, real git in temp repos); the guard name is reserved and unused",
            "baseline_off_cmd": "cd /repo && /venv/bin/python -m pytest -ra -q -p no:cacheprovider --timeout=900 --continue-on-collection-errors",
            "source_commits": [],
            "add_only": True,
        },
        "engines": [{
            "name": "lean4-model+correspondence",
            "path": "lean/ (model, theorems, driver), harness/ (translator, adapter, correspondence, oracles)",
            "serves_properties": sorted(CLAIMED),
            "kind_free_text": "Lean 4 machine-checked theorems about an executable model; tables regenerated from /repo by harness/translate.py on every run; model tied to the code by a differential correspondence check; failing-input search on the implementation when an obligation or the correspondence breaks",
        }],
        "checks": checks,
        "notes": "See DESIGN.md. ./check <ID> --tier quick|thorough. Known findings: known_findings.json.",
        "not_applicable": [{"property_id": p, "reason": PENDING_REASON} for p in ALL if p not in CLAIMED],
    }
    with open(os.path.join(VERIF, "MANIFEST.json"), "w") as f:
        json.dump(man, f, indent=1)
    print("MANIFEST.json: %d checks, %d not claimed" % (len(checks), len(man["not_applicable"])))


if __name__ == "__main__":
    main()
