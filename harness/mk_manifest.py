#!/usr/bin/env python3
"""Writes /verif/MANIFEST.json from the table below (kept in one place so the
manifest stays valid and current)."""
import json, os
VERIF = os.path.dirname(os.path.dirname(os.path.abspath(__file__)))

ALL = ["C%02d" % i for i in range(1, 21)]

# id -> (level text, level note, technique, design ref)
CLAIMED = {
 "C17": (
  "Lean 4 theorems C17_closed/int_strict/lex_strict/width/max_only/chain_int/chain_lex about the executable model of the BUILD step (padding + lexid.next_id) for ALL digit strings and ALL chain lengths (induction, no bound); the model is tied to the real lexid/_incr_numeric by an exhaustive correspondence run (all ids up to 4 digits quick / 6 digits thorough, random longer ids, chains).",
  "Trusted: Lean kernel, axioms propext/Classical.choice/Quot.sound only; correspondence check ties BV.bumpBid to lexid.next_id and v2version._incr_numeric (third-party lexid is modelled, not verified).",
  "Lean 4 proof (induction on digit lists) + exhaustive model/implementation correspondence",
  "DESIGN.md section 7, C17"),
}

PENDING_REASON = "not yet covered: model/theorems for this property are still being built (see DESIGN.md section 10 for the order of work); no check is claimed until its theorems are proved and tied to the code"


def main():
    checks = []
    for pid in ALL:
        if pid in CLAIMED:
            text, note, tech, ref = CLAIMED[pid]
            checks.append({
                "property_id": pid,
                "quick_cmd": "./check %s --tier quick" % pid,
                "thorough_cmd": "./check %s --tier thorough" % pid,
                "evidence_file": "evidence/%s.json" % pid,
                "replay_cmd_template": "./check %s --replay {path}" % pid,
                "engine": "lean4-model+correspondence",
                "level_claimed": {"category": "proof", "text": text, "design_ref": ref},
                "level_note": note,
                "technique": tech,
            })
    man = {
        "version": 1,
        "setup_cmd": "cd lean && lake build driver BumpverVerif",
        "hooks": {
            "guard": "MBARKHAU_BUMPVER_VERIF",
            "enable": "no hooks are needed: every check observes bumpver from outside (public functions via harness/impl_adapter.py, click CliRunner, fake git/hg on PATH, real git in temp repos); the guard name is reserved and unused",
            "baseline_off_cmd": "cd /repo && /venv/bin/python -m pytest -ra -q -p no:cacheprovider --timeout=900 --continue-on-collection-errors",
            "source_commits": [],
            "add_only": True,
        },
        "engines": [{
            "name": "lean4-model+correspondence",
            "path": "lean/ (model, theorems, driver), harness/ (translator, adapter, correspondence, oracles)",
            "serves_properties": sorted(CLAIMED),
            "kind_free_text": "Lean 4 machine-checked theorems about an executable model; tables regenerated from /repo by harness/translate.py on every run; model tied to the code by a differential correspondence check; failing-input search on the implementation when an obligation or the correspondence breaks",
        }],
        "checks": checks,
        "notes": "See DESIGN.md. ./check <ID> --tier quick|thorough. Known findings: known_findings.json.",
        "not_applicable": [{"property_id": p, "reason": PENDING_REASON} for p in ALL if p not in CLAIMED],
    }
    with open(os.path.join(VERIF, "MANIFEST.json"), "w") as f:
        json.dump(man, f, indent=1)
    print("MANIFEST.json: %d checks, %d not claimed" % (len(checks), len(man["not_applicable"])))


if __name__ == "__main__":
    main()
