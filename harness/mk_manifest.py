#!/usr/bin/env python3
"""Writes /verif/MANIFEST.json from the table below (kept in one place so the
manifest stays valid and current)."""
import json, os
VERIF = os.path.dirname(os.path.dirname(os.path.abspath(__file__)))

ALL = ["C%02d" % i for i in range(1, 21)]

# id -> (level text, level note, technique, design ref)
CLAIMED = {
 "C17": (
  "Lean 4 theorems C17_closed/int_strict/lex_strict/width/max_only/chain_int/chain_lex about the executable model of the BUILD step (padding + lexid.next_id) for ALL digit strings and ALL chain lengths (induction, no bound); the model is tied to the real lexid/_incr_numeric by an exhaustive correspondence run (all ids up to 4 digits quick / 6 digits thorough, random longer ids, chains).",
  "Trusted: Lean kernel, axioms propext/Classical.choice/Quot.sound only; correspondence check ties BV.bumpBid to lexid.next_id and v2version._incr_numeric (third-party lexid is modelled, not verified).",
  "Lean 4 proof (induction on digit lists) + exhaustive model/implementation correspondence",
  "DESIGN.md section 7, C17"),
 "C11": (
  "Lean 4 theorems C11_decision/no_crash/pattern_file_always_blocks/untracked_unrelated_never_blocks/clean about the executable model of VCSAPI.status + assert_not_dirty, for EVERY porcelain XY status pair, every path git prints verbatim, every file list and both --allow-dirty settings; tied to the code by op `dirty` on status text produced by a real git for every file state and on synthetic porcelain text, plus an end-to-end oracle with real git (exit code, bytes, HEAD, commit contents). Partial: real git's behaviour is exercised, not modelled; C-quoted paths and renames are known finding F-C11-quoted.",
  "Trusted: Lean kernel + standard axioms; correspondence check; git itself (exercised). The abort-before-rewrite ordering is C10's theorem.",
  "Lean 4 proof (structural induction over status lines) + correspondence on real git output",
  "DESIGN.md section 7, C11"),
 "C12": (
  "Lean 4 theorems C12_*: for every value-carrying git/hg command of the GENERATED template table and ALL strings the argv is the documented token list with each value as exactly one element (C12_git_commit_argv … C12_hg_push_tag_argv), the general C12_single_argument over the table shape (C12_table_shape checked on the regenerated table), C12_message_render for str.format with the documented placeholders, and negative witnesses for the repaired format-then-split defect. Tied to the code by ops shlex/fmt/argv/submsg and end-to-end update runs with fake git/hg (NUL-separated argv log) and real git objects.",
  "Trusted: Lean kernel + standard axioms; translator for VCS_SUBCOMMANDS_BY_NAME; str.format and shlex.split are modelled (tied by correspondence), hg itself is absent (fake executable).",
  "Lean 4 proof over a regenerated table (decide +kernel on the table, induction for the general lemmas) + correspondence",
  "DESIGN.md section 7, C12"),
}

PENDING_REASON = "not yet covered: model/theorems for this property are still being built (see DESIGN.md section 10 for the order of work); no check is claimed until its theorems are proved and tied to the code"


def main():
    checks = []
    for pid in ALL:
        if pid in CLAIMED:
            text, note, tech, ref = CLAIMED[pid]
            checks.append({
                "property_id": pid,
                "quick_cmd": "./check %s --tier quick" % pid,
                "thorough_cmd": "./check %s --tier thorough" % pid,
                "evidence_file": "evidence/%s.json" % pid,
                "replay_cmd_template": "./check %s --replay {path}" % pid,
                "engine": "lean4-model+correspondence",
                "level_claimed": {"category": "proof", "text": text, "design_ref": ref},
                "level_note": note,
                "technique": tech,
            })
    man = {
        "version": 1,
        "setup_cmd": "cd lean && lake build driver BumpverVerif",
        "hooks": {
            "guard": "MBARKHAU_BUMPVER_VERIF",
            "enable": "no hooks are needed: every check observes bumpver from outside (public functions via harness/impl_adapter.py, click CliRunner, fake git/hg on PATH, real git in temp repos); the guard name is reserved and unused",
            "baseline_off_cmd": "cd /repo && /venv/bin/python -m pytest -ra -q -p no:cacheprovider --timeout=900 --continue-on-collection-errors",
            "source_commits": [],
            "add_only": True,
        },
        "engines": [{
            "name": "lean4-model+correspondence",
            "path": "lean/ (model, theorems, driver), harness/ (translator, adapter, correspondence, oracles)",
            "serves_properties": sorted(CLAIMED),
            "kind_free_text": "Lean 4 machine-checked theorems about an executable model; tables regenerated from /repo by harness/translate.py on every run; model tied to the code by a differential correspondence check; failing-input search on the implementation when an obligation or the correspondence breaks",
        }],
        "checks": checks,
        "notes": "See DESIGN.md. ./check <ID> --tier quick|thorough. Known findings: known_findings.json.",
        "not_applicable": [{"property_id": p, "reason": PENDING_REASON} for p in ALL if p not in CLAIMED],
    }
    with open(os.path.join(VERIF, "MANIFEST.json"), "w") as f:
        json.dump(man, f, indent=1)
    print("MANIFEST.json: %d checks, %d not claimed" % (len(checks), len(man["not_applicable"])))


if __name__ == "__main__":
    main()
