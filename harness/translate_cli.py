#!/venv/bin/python
"""Python -> Lean translator for the DECISION functions of cli.py, for `_cmpkey` and for
`_pick_config_filepath` (an extension of harness/translate_funcs.py; documented in
harness/TRANSLATE_CLI.md).

`CliTranslator` subclasses `translate_funcs.FuncTranslator` and adds what these functions need:

  * effects: a function that can raise / `sys.exit` has the result type `Except Exc T`
    (`Exc` = Model/CliPrims.lean); calls of raising callees are hoisted into
    `match … with | .error ex => … | .ok v => …`, `try/except Cls` installs a handler;
  * callees: a callee that is not translated is the MODEL function named in `CALLEES`
    (arguments matched by position and by keyword NAME), a translated callee is the generated
    definition, everything else is `Untranslatable`;
  * comprehensions (`List.filter`/`List.map`/`pyFilterM`), `sorted`/`list.sort`/`max`/`min` with
    `key=`, `reversed`, `itertools.dropwhile(lambda …)`, `xs[0]`, `xs[:n]`, `sep.join`, f-strings
    of str pieces, `isinstance(x, int)` on an `int | str` union, the `Infinity` sentinels (`Ext`),
    `pathlib` `/`, `.exists()`, `with p.open(mode="rb") as f: data = f.read()`, byte literals,
    loops that `return` a found element (`List.findSome?`), keyword-only parameters.

Generated files: lean/BumpverVerif/Gen/F_<name>.lean, namespace BV.GenC (the shared generated
enum / structure declarations are in Gen/F_cliTypes.lean).  Nothing is imported from bumpver,
only its source text is read ($VERIF_REPO/src/bumpver, default /repo).
"""
import ast
import os
import sys

HERE = os.path.dirname(os.path.abspath(__file__))
sys.path.insert(0, HERE)

import translate_funcs as TF                                     # noqa: E402
from translate_funcs import (                                     # noqa: E402
    BOOL, INT, NAT, LIT, STR, NONE, OPT, LIST, TUP, REC, ENUM, OPAQUE,
    Untranslatable, Var, lean_ident, lean_str, indent, _nl, _arm, is_intlike, sha256,
)

# ----------------------------------------------------------------------------------
# additional static types
# ----------------------------------------------------------------------------------
UNIT = ("unit",)            # a function that only returns None
VERSION = ("version",)      # the object `version.parse_version` returns (model: Parsed)
NEGINF = ("neginf",)        # the constant NegativeInfinity
INF = ("inf",)              # the constant Infinity
LOCSEG = ("locseg",)        # `int | str` (an element of a parsed local version; model: LocalSeg)
BYTES = ("bytes",)          # `bytes`; rendered as Str (only ASCII literals and `in` are supported)
PATH = OPAQUE("Path")       # pathlib.Path (opaque; `/`, `.exists()`, read through parameters)
DATE = OPAQUE("Date")       # datetime.date (opaque)
DATETIME = OPAQUE("DateTime")


def EXT(t):                 # t | NegativeInfinity | Infinity   (t may be None: not known yet)
    return ("ext", t)


def MODSEL(cond, a, b):     # `modA if cond else modB` (a module-valued conditional)
    return ("modsel", cond, a, b)


# ----------------------------------------------------------------------------------
# callees that are NOT translated: the model function that stands for them
#   lean    : Lean function (Model/CliPrims.lean unless noted)
#   ctx     : ambient parameters it needs first (must be ambient parameters of the caller too)
#   params  : [(python name, type)] in positional order; `kwonly` = index of the first keyword-only one
#   defaults: python name -> (lean, type) for parameters the caller may omit
#   ret     : result type;  raises: True = the Lean function returns `Except Exc ret`
# ----------------------------------------------------------------------------------
FLAGS_V2 = [("major", BOOL), ("minor", BOOL), ("patch", BOOL), ("tag", OPT(STR)), ("tag_num", BOOL),
            ("pin_increments", BOOL), ("pin_date", BOOL), ("maybe_date", OPT(DATE))]
FLAGS_V1 = [p for p in FLAGS_V2 if p[0] != "pin_increments"]
FLAG_DEFAULTS = {"major": ("false", BOOL), "minor": ("false", BOOL), "patch": ("false", BOOL),
                 "tag": ("none", NONE), "tag_num": ("false", BOOL), "pin_increments": ("false", BOOL),
                 "pin_date": ("false", BOOL), "maybe_date": ("none", NONE)}

CALLEES = {
    "v2version.parse_version_info": dict(
        lean="pyV2ParseVersionInfo", ctx=["today"], params=[("version_str", STR), ("raw_pattern", STR)],
        ret=OPAQUE("VInfo"), raises=True),
    "v1version.parse_version_info": dict(
        lean="pyV1ParseVersionInfo", ctx=[], params=[("version_str", STR), ("raw_pattern", STR)],
        ret=OPAQUE("V1Info"), raises=True),
    "v2version.is_valid": dict(
        lean="pyV2IsValid", ctx=["today"], params=[("version_str", STR), ("raw_pattern", STR)],
        ret=BOOL, raises=True),
    "v1version.is_valid": dict(
        lean="pyV1IsValid", ctx=[], params=[("version_str", STR), ("raw_pattern", STR)],
        ret=BOOL, raises=True),
    "v2version.incr": dict(
        lean="pyV2Incr", ctx=["today"], params=[("old_version", STR), ("raw_pattern", STR)] + FLAGS_V2,
        kwonly=2, defaults=FLAG_DEFAULTS, ret=OPT(STR), raises=True),
    "v1version.incr": dict(
        lean="pyV1Incr", ctx=["today"], params=[("old_version", STR), ("raw_pattern", STR)] + FLAGS_V1,
        kwonly=2, defaults=FLAG_DEFAULTS, ret=OPT(STR), raises=True),
    "v1patterns.compile_pattern": dict(
        lean="pyV1CompilePattern", ctx=[], params=[("version_pattern", STR)], ret=OPAQUE("Re"), raises=True),
    "v2patterns.compile_pattern": dict(
        lean="pyV2CompilePattern", ctx=[], params=[("version_pattern", STR)], ret=OPAQUE("Re"), raises=True),
    "version.parse_version": dict(
        lean="parseVersion", ctx=[], params=[("version", STR)], ret=VERSION, raises=False),
    "version.to_pep440": dict(
        lean="pyToPep440", ctx=[], params=[("version", STR)], ret=STR, raises=False),
    # the VCS and the library are PARAMETERS of the generated definitions (ambient parameters)
    "vcs.get_tags": dict(
        lean="vcs_get_tags", ctx=[], needs=["vcs_get_tags"], params=[("fetch", BOOL), ("scope", ENUM("TagScope"))],
        ret=LIST(STR), raises=False),
}

# modules that can be bound to a variable (`parser = v2version if … else v1version`; `if …: parser = v2version else: …`)
MODULES = ("v1version", "v2version")

# functions usable as `key=`: dotted name -> (lean function, result type)
KEY_FUNCS = {"version.parse_version": ("parseVersion", VERSION)}

# exception classes a handler may name -> the predicate on `Exc`
EXC_CLASSES = {"version.PatternError": "isPatternError", "ValueError": "isValueError"}

# the types of the ambient parameters
CTX_TYPES = {
    "today": "Date",
    "vcs_get_tags": "Bool → TagScope → List Str",
    "path_join": "Path → Str → Path",
    "path_exists": "Path → Bool",
    "read_bytes": "Path → Str",
    "strptime": "Str → Str → Option DateTime",
    "datetime_date": "DateTime → Date",
}

TYPES_FILE = "F_cliTypes"      # the shared generated declarations (enum TagScope, structure Config)

# ----------------------------------------------------------------------------------
# the signature table
# ----------------------------------------------------------------------------------
CFG = REC("Config")
FUNCS = [
    dict(name="isValidVersion", file="cli.py", func="_is_valid_version",
         params=[("raw_pattern", STR), ("old_version", STR), ("new_version", STR), ("unique", BOOL)],
         defaults={"unique": False},
         ctx=["today", "vcs_get_tags"], ret=BOOL, effect=True, types=True,
         imports=["BumpverVerif.Model.CliPrims"]),
    dict(name="parseVersionTags", file="cli.py", func="_parse_version_tags",
         params=[("all_tags", LIST(STR)), ("version_pattern", STR), ("is_new_pattern", BOOL)],
         ctx=["today"], ret=LIST(STR), effect=True,
         imports=["BumpverVerif.Model.CliPrims"]),
    dict(name="getLatestVcsVersionTag", file="cli.py", func="get_latest_vcs_version_tag",
         params=[("cfg", CFG), ("fetch", BOOL)], implicit="{α : Type}",
         ctx=["today", "vcs_get_tags"], ret=OPT(STR), effect=True, types=True,
         imports=["BumpverVerif.Model.CliPrims"]),
    dict(name="updateCfgFromVcs", file="cli.py", func="_update_cfg_from_vcs",
         params=[("cfg", CFG), ("fetch", BOOL)], implicit="{α : Type}",
         ctx=["today", "vcs_get_tags"], ret=CFG, effect=True, types=True,
         imports=["BumpverVerif.Model.CliPrims"]),
    dict(name="validateReleaseTag", file="cli.py", func="_validate_release_tag",
         params=[("tag", OPT(STR))], ctx=[], ret=UNIT, effect=True,
         consts={"VALID_RELEASE_TAG_VALUES": ("Gen.validReleaseTagValues", LIST(STR))},
         imports=["BumpverVerif.Model.CliPrims"]),
    dict(name="validateFlags", file="cli.py", func="_validate_flags",
         params=[("raw_pattern", STR), ("major", BOOL), ("minor", BOOL), ("patch", BOOL)],
         ctx=[], ret=UNIT, effect=True, imports=["BumpverVerif.Model.CliPrims"]),
    dict(name="validateDate", file="cli.py", func="_validate_date",
         params=[("date", OPT(STR)), ("pin_date", BOOL)],
         ctx=["strptime", "datetime_date"], implicit="{DateTime : Type}", ret=OPT(DATE), effect=True,
         imports=["BumpverVerif.Model.CliPrims"]),
    dict(name="incrDispatch", file="cli.py", func="incr_dispatch",
         params=[("old_version", STR), ("raw_pattern", STR)] + FLAGS_V2,
         kwonly=2, defaults={"major": False, "minor": False, "patch": False, "tag": None, "tag_num": False,
                             "pin_increments": False, "pin_date": False, "maybe_date": None},
         ctx=["today"], xparams={"_VERBOSE": ("verbose", BOOL)}, ret=OPT(STR), effect=True,
         consts={"list(v1patterns.PART_PATTERNS)": ("(Gen.v1PartPatterns.map (·.1))", LIST(STR)),
                 "list(v1patterns.FULL_PART_FORMATS)": ("(Gen.v1FullPartFormats.map (·.1))", LIST(STR))},
         imports=["BumpverVerif.Model.CliPrims"]),
    dict(name="cmpkey", file="setuptools_v65_version.py", func="_cmpkey",
         params=[("epoch", NAT), ("release", LIST(NAT)), ("pre", OPT(TUP(STR, NAT))),
                 ("post", OPT(TUP(STR, NAT))), ("dev", OPT(TUP(STR, NAT))), ("local", OPT(LIST(LOCSEG)))],
         ctx=[], effect=False,
         ret=TUP(NAT, LIST(NAT), EXT(TUP(STR, NAT)), EXT(TUP(STR, NAT)), EXT(TUP(STR, NAT)),
                 EXT(LIST(TUP(EXT(NAT), STR)))),
         consts={"Infinity": ("Ext.inf", INF), "NegativeInfinity": ("Ext.negInf", NEGINF)},
         imports=["BumpverVerif.Model.Pep440"]),
    dict(name="pickConfigFilepath", file="config.py", func="_pick_config_filepath",
         params=[("path", PATH)], implicit="{Path : Type}",
         ctx=["path_join", "path_exists", "read_bytes"], ret=PATH, effect=False,
         imports=["BumpverVerif.Model.Basic"]),
]
BY_FUNC = {s["func"]: s for s in FUNCS}


def split_tuple_literal(lean):
    """the components of a rendered tuple literal `(a, b, c)`, or None when `lean` is not one"""
    s = lean.strip()
    if not (s.startswith("(") and s.endswith(")")):
        return None
    depth, parts, cur, i, in_str = 0, [], [], 0, False
    inner = s[1:-1]
    while i < len(inner):
        ch = inner[i]
        if in_str:
            cur.append(ch)
            if ch == "\\":
                cur.append(inner[i + 1])
                i += 1
            elif ch == '"':
                in_str = False
        elif ch == '"':
            in_str = True
            cur.append(ch)
        elif ch in "([{":
            depth += 1
            cur.append(ch)
        elif ch in ")]}":
            depth -= 1
            if depth < 0:
                return None          # the outer parentheses do not match each other
            cur.append(ch)
        elif ch == "," and depth == 0:
            parts.append("".join(cur).strip())
            cur = []
        else:
            cur.append(ch)
        i += 1
    if depth != 0 or in_str:
        return None
    parts.append("".join(cur).strip())
    if len(parts) < 2 or s[1:].lstrip().startswith(("let ", "match ", "if ", "fun ")):
        return None
    return parts


def effect_of_callee(name):
    if name in CALLEES:
        return CALLEES[name]["raises"]
    if name in BY_FUNC:
        return BY_FUNC[name]["effect"]
    return False


# ----------------------------------------------------------------------------------
class CliTranslator(TF.FuncTranslator):
    def __init__(self, spec, sources):
        TF.FuncTranslator.__init__(self, spec, sources)
        self.effect = spec.get("effect", False)
        self.handlers = []          # [(Exc predicate, thunk rendering handler-then-rest)]
        self.loop_ret = False       # inside a `findSome?` loop body: `return e` is `some e`
        self.in_loop = 0            # inside the step function of a `pyForM` loop: exceptions only propagate
        self.used_callees = []      # translated callees (their Gen files are imported)
        self.raises = False

    # -- types ----------------------------------------------------------------------------
    def lean_type(self, t):
        k = t[0]
        if k == "unit":
            return "Unit"
        if k == "version":
            return "Parsed"
        if k == "locseg":
            return "LocalSeg"
        if k == "bytes":
            return "Str"
        if k == "ext":
            if t[1] is None:
                return "Ext _"
            inner = self.lean_type(t[1])
            return "Ext (%s)" % inner if " " in inner and not inner.startswith("(") else "Ext " + inner
        if k in ("neginf", "inf"):
            return "Ext _"
        if k == "opt":
            inner = self.lean_type(t[1])
            return "Option (%s)" % inner if " " in inner and not inner.startswith("(") else "Option " + inner
        if k == "list" and t[1] is not None:
            inner = self.lean_type(t[1])
            return "List (%s)" % inner if " " in inner and not inner.startswith("(") else "List " + inner
        return TF.FuncTranslator.lean_type(self, t)

    def unify(self, a, b):
        if a == b:
            return a
        sent = (NEGINF, INF)
        if a in sent and b in sent:
            return EXT(None)
        for x, y in ((a, b), (b, a)):
            if x in sent:
                if y[0] == "ext":
                    return y
                if y[0] in ("opt", "none"):
                    return None
                return EXT(y)
        if a[0] == "ext" or b[0] == "ext":
            ia = a[1] if a[0] == "ext" else a
            ib = b[1] if b[0] == "ext" else b
            if ia is None:
                return EXT(ib)
            if ib is None:
                return EXT(ia)
            u = self.unify(ia, ib)
            return EXT(u) if u else None
        return TF.FuncTranslator.unify(self, a, b)

    def coerce(self, lean, frm, to, node=None):
        if frm == to:
            return lean
        if to == UNIT and frm == NONE:
            return "()"
        if to[0] == "ext":
            if frm == NEGINF:
                return "Ext.negInf"
            if frm == INF:
                return "Ext.inf"
            if frm[0] == "ext":
                if frm[1] is None or frm[1] == to[1]:
                    return lean
                x = self.fresh("x")
                return "(match %s with | .negInf => Ext.negInf | .inf => Ext.inf | .val %s => Ext.val %s)" % (
                    lean, x, self.coerce(x, frm[1], to[1], node))
            return "(Ext.val %s)" % self.coerce(lean, frm, to[1], node)
        if to[0] == "tuple" and frm[0] == "tuple" and len(to[1]) == len(frm[1]):
            # a tuple LITERAL is coerced component by component (no `let p := …`, whose type could not be
            # inferred when a component is a bare sentinel)
            parts = split_tuple_literal(lean)
            if parts is not None and len(parts) == len(to[1]):
                return "(" + ", ".join(self.coerce(p, a, b, node) for p, a, b in zip(parts, frm[1], to[1])) + ")"
        if to[0] == "list" and frm[0] == "list" and frm[1] is not None and to[1] is not None and frm[1] != to[1]:
            x = self.fresh("x")
            return "(List.map (fun %s => %s) %s)" % (x, self.coerce(x, frm[1], to[1], node), lean)
        return TF.FuncTranslator.coerce(self, lean, frm, to, node)

    # -- effects: hoisted raising calls, handlers ------------------------------------------
    def on_error(self, propagate_only=False):
        """Lean term for `| .error ex => …`: the innermost matching handler, else propagate"""
        out = "(.error ex)"
        if propagate_only or self.in_loop:
            return out
        hs = self.handlers
        for i, (pred, hk) in enumerate(hs):
            saved = self.handlers
            self.handlers = hs[:i]
            try:
                code = hk()
            finally:
                self.handlers = saved
            out = "(if Exc.%s ex then %s else %s)" % (pred, _nl(code), _nl(out))
        return out

    def with_hoists(self, compute, cont, propagate_only=False):
        saved = self.hoists
        self.hoists = []
        try:
            val = compute()
            hs = self.hoists
        finally:
            self.hoists = saved
        body = cont(val)
        for name, e in reversed(hs):
            if not self.effect:
                self.bad(None, "a call that can raise inside a function declared free of effects")
            body = "(match %s with\n  | .error ex => %s\n  | .ok %s => %s)" % (
                e, _arm(self.on_error(propagate_only)), name, _arm(body))
        return body

    def hoist(self, node, lean, base):
        if self.hoists is None:
            self.bad(node, "a call that can raise is only supported inside an assignment, a return, "
                           "an expression statement or the test of an `if`")
        v = self.fresh(base)
        self.hoists.append((v, lean))
        return v

    def wrap_ok(self, lean):
        if self.loop_ret:
            return "(some %s)" % lean
        return "(.ok %s)" % lean if self.effect else lean

    def ret(self, node, env, at):
        rt = self.spec["ret"]

        def compute():
            if node is None:
                return "none", NONE
            return self.expr(node, env)

        def cont(vt):
            v, t = vt
            return self.wrap_ok(self.coerce(v, t, rt, at))
        return self.with_hoists(compute, cont)

    def exit_term(self, lean_exc, at):
        if not self.effect:
            self.bad(at, "an exit inside a function declared free of effects")
        if self.loop_ret:
            self.bad(at, "an exit inside a searching loop")
        return "(.error %s)" % lean_exc

    # -- node classification -----------------------------------------------------------------
    def callee_name(self, call):
        return ast.unparse(call.func) if isinstance(call, ast.Call) else None

    def is_sys_exit(self, node):
        return isinstance(node, ast.Call) and ast.unparse(node.func) in ("sys.exit", "exit")

    def has_effect(self, node):
        for n in ast.walk(node):
            if isinstance(n, ast.Try):
                return True
            if isinstance(n, ast.Call):
                nm = ast.unparse(n.func)
                if nm in ("sys.exit", "exit") or effect_of_callee(nm):
                    return True
                if isinstance(n.func, ast.Attribute) and isinstance(n.func.value, ast.Name) \
                        and n.func.attr in ("is_valid", "parse_version_info", "incr"):
                    return True            # a method of a module-valued conditional
                if nm in ("max", "min"):
                    return True
            if isinstance(n, ast.Subscript) and not isinstance(n.slice, ast.Slice) and self.effect:
                return True                # xs[0] can raise IndexError (tuples: constant index, harmless)
        return False

    def contains_exit(self, stmts, allow_continue=False):
        if TF.FuncTranslator.contains_exit(self, stmts, allow_continue):
            return True
        return any(self.has_effect(st) for st in stmts)

    # -- expressions ---------------------------------------------------------------------------
    def expr(self, node, env):
        spec = self.spec
        if isinstance(node, (ast.Call, ast.Attribute, ast.Name)):
            key = ast.unparse(node)
            if not (isinstance(node, ast.Name) and node.id in env):
                if key in spec.get("consts", {}):
                    return spec["consts"][key]
                if key in spec.get("xparams", {}):
                    return spec["xparams"][key]
        if isinstance(node, ast.Constant) and isinstance(node.value, bytes):
            try:
                s = node.value.decode("ascii")
            except UnicodeDecodeError:
                self.bad(node, "only ASCII byte literals")
            return lean_str(s), BYTES
        if isinstance(node, ast.Attribute):
            key = ast.unparse(node)
            parts = key.split(".")
            # enum member: config.TagScope.GLOBAL / TagScope.GLOBAL
            if len(parts) >= 2 and parts[-2] in TF.ENUMS and parts[:-2] in ([], ["config"]):
                members = self.enum(parts[-2])
                if parts[-1] not in [m for m, _ in members]:
                    self.bad(node, "enum %s has no member `%s`" % (parts[-2], parts[-1]))
                return "%s.%s" % (parts[-2], lean_ident(parts[-1])), ENUM(parts[-2])
            if node.attr == "value":
                val, t = self.expr(node.value, env)
                if t[0] == "enum":
                    self.enum(t[1])
                    return "(%s.value %s)" % (t[1], val), STR
                self.bad(node, "`.value` on a value of type %r" % (t,))
        if isinstance(node, ast.Name) and node.id in env and env[node.id].type[0] == "modsel":
            self.bad(node, "a module-valued variable can only be used as `var.function(...)`")
        if isinstance(node, ast.Name) and node.id not in env and node.id in MODULES:
            return "<module>", MODSEL("true", node.id, node.id)      # a module as a value (only `var.function(...)` uses it)
        if isinstance(node, ast.IfExp) and all(
                isinstance(b, ast.Name) and b.id in MODULES and b.id not in env for b in (node.body, node.orelse)):
            c = self.truthy(node.test, env)
            return "<module>", MODSEL(c, node.body.id, node.orelse.id)
        if isinstance(node, (ast.ListComp, ast.GeneratorExp)):
            return self.comprehension(node, env)
        if isinstance(node, ast.JoinedStr):
            pieces = []
            for v in node.values:
                if isinstance(v, ast.Constant) and isinstance(v.value, str):
                    pieces.append(lean_str(v.value))
                elif isinstance(v, ast.FormattedValue) and v.conversion == -1 and v.format_spec is None:
                    p, t = self.expr(v.value, env)
                    if t != STR:
                        self.bad(node, "f-string with a piece of type %r (only str pieces)" % (t,))
                    pieces.append(p)
                else:
                    self.bad(node, "f-string with a conversion or a format spec")
            return "(" + " ++ ".join(pieces or ['([] : Str)']) + ")", STR
        if isinstance(node, ast.Subscript):
            val, t = self.expr(node.value, env)
            if t[0] == "list" and t[1] is not None:
                sl = node.slice
                if isinstance(sl, ast.Slice):
                    if sl.step is not None:
                        self.bad(node, "slices with a step")
                    out = val
                    if sl.lower is not None:
                        lo, tl = self.expr(sl.lower, env)
                        if tl not in (LIT, NAT):
                            self.bad(node, "slice bounds must be non-negative ints")
                        out = "(List.drop %s %s)" % (lo, out)
                        if sl.upper is not None:
                            self.bad(node, "only `xs[:n]` and `xs[n:]` slices")
                    elif sl.upper is not None:
                        hi, th = self.expr(sl.upper, env)
                        if th not in (LIT, NAT):
                            self.bad(node, "slice bounds must be non-negative ints")
                        out = "(List.take %s %s)" % (hi, out)
                    return out, t
                if isinstance(sl, ast.Constant) and sl.value == 0:
                    v = self.hoist(node, "(match %s with | [] => Except.error Exc.indexError | x :: _ => Except.ok x)" % val, "item")
                    return v, t[1]
                if isinstance(sl, ast.UnaryOp) and isinstance(sl.op, ast.USub) and isinstance(sl.operand, ast.Constant) \
                        and sl.operand.value == 1:
                    v = self.hoist(node, "(match List.getLast? %s with | none => Except.error Exc.indexError | some x => Except.ok x)" % val, "item")
                    return v, t[1]
                self.bad(node, "only `xs[0]`, `xs[-1]`, `xs[:n]`, `xs[n:]` on lists")
            # tuples: the base class (it evaluates node.value again; tuple values are pure)
        return TF.FuncTranslator.expr(self, node, env)

    def comprehension(self, node, env):
        if len(node.generators) != 1 or node.generators[0].is_async:
            self.bad(node, "only comprehensions with one generator")
        gen = node.generators[0]
        if not isinstance(gen.target, ast.Name):
            self.bad(node, "the comprehension target must be a name")
        xs, txs = self.expr(gen.iter, env)
        if txs[0] != "list" or txs[1] is None:
            self.bad(node, "comprehension over a value of type %r" % (txs,))
        x = lean_ident(gen.target.id)
        env2 = dict(env)
        env2[gen.target.id] = Var(x, txs[1])
        out = xs
        for c in gen.ifs:
            if self.has_effect(c):
                body = self.with_hoists(lambda: self.truthy(c, env2), lambda b: "(.ok %s)" % b, propagate_only=True)
                out = self.hoist(node, "(pyFilterM (fun %s =>\n%s) %s)" % (x, indent(body, 4), out), "filtered")
            else:
                saved_h, self.hoists = self.hoists, None
                try:
                    b = self.cond(c, env2, lambda e: "true", lambda e: "false", as_bool=True)
                finally:
                    self.hoists = saved_h
                out = "(List.filter (fun %s => %s) %s)" % (x, b, out)
        if isinstance(node.elt, ast.Name) and node.elt.id == gen.target.id:
            return out, txs
        if self.has_effect(node.elt):
            self.bad(node, "a comprehension element that can raise")
        saved_h, self.hoists = self.hoists, None
        try:
            e, te = self.expr(node.elt, env2)
        finally:
            self.hoists = saved_h
        if te == LIT:
            te = INT
        return "(List.map (fun %s => %s) %s)" % (x, e, out), LIST(te)

    def compare1(self, op, ln, rn, env, node):
        mark = (len(self.hoists) if self.hoists is not None else None, self.counter)
        a, ta = self.expr(ln, env)
        b, tb = self.expr(rn, env)
        if ta == VERSION and tb == VERSION:
            table = {ast.LtE: "(verLe %s %s)" % (a, b), ast.Lt: "(verLt %s %s)" % (a, b),
                     ast.GtE: "(verLe %s %s)" % (b, a), ast.Gt: "(verLt %s %s)" % (b, a),
                     ast.Eq: "(verEqKey %s %s)" % (a, b), ast.NotEq: "(!verEqKey %s %s)" % (a, b)}
            if type(op) not in table:
                self.bad(node, "comparison %s on version objects" % type(op).__name__)
            return table[type(op)]
        if isinstance(op, (ast.In, ast.NotIn)) and ta == BYTES and tb == BYTES:
            return "(%sisInfix %s %s)" % ("!" if isinstance(op, ast.NotIn) else "", a, b)
        if VERSION in (ta, tb) or BYTES in (ta, tb):
            self.bad(node, "comparison on %r and %r" % (ta, tb))
        # not one of mine: undo and let the base class do it
        if mark[0] is not None:
            del self.hoists[mark[0]:]
        self.counter = mark[1]
        return TF.FuncTranslator.compare1(self, op, ln, rn, env, node)

    def bind_args(self, node, cal, name):
        """match the arguments of a call with the callee's parameters (by position, by keyword name)"""
        params = cal["params"]
        kwonly = cal.get("kwonly", len(params))
        if len(node.args) > kwonly:
            self.bad(node, "too many positional arguments for `%s`" % name)
        bound = {}
        for (p, _), a in zip(params, node.args):
            if isinstance(a, ast.Starred):
                self.bad(node, "starred arguments")
            bound[p] = a
        for kw in node.keywords:
            if kw.arg is None or kw.arg in bound or kw.arg not in [p for p, _ in params]:
                self.bad(node, "bad keyword argument `%s` for `%s`" % (kw.arg, name))
            bound[kw.arg] = kw.value
        return bound

    def call_callee(self, node, env, name, cal):
        bound = self.bind_args(node, cal, name)
        args = []
        for p, t in cal["params"]:
            if p in bound:
                v, vt = self.expr(bound[p], env)
                args.append(self.coerce(v, vt, t, bound[p]))
            elif p in cal.get("defaults", {}):
                v, vt = cal["defaults"][p]
                args.append(self.coerce(v, vt, t, node))
            else:
                self.bad(node, "argument `%s` of `%s` is missing" % (p, name))
        need = list(cal.get("ctx", [])) + list(cal.get("needs", []))
        for c in need:
            if c not in self.spec.get("ctx", []):
                self.bad(node, "`%s` needs the ambient parameter `%s`, which `%s` does not have" % (name, c, self.fn))
        lean = "(%s)" % " ".join([cal["lean"]] + list(cal.get("ctx", [])) + args)
        if cal["raises"]:
            return self.hoist(node, lean, "r"), cal["ret"]
        return lean, cal["ret"]

    def key_func(self, node, fname):
        """the `key=` / `reverse=` keywords of sorted / sort / max / min -> (lt, key lean, reverse)"""
        key = None
        reverse = False
        for kw in node.keywords:
            if kw.arg == "key":
                k = ast.unparse(kw.value)
                if k not in KEY_FUNCS:
                    self.bad(node, "key function `%s` is not in the table" % k)
                key = KEY_FUNCS[k]
            elif kw.arg == "reverse" and fname in ("sorted", "sort"):
                if not (isinstance(kw.value, ast.Constant) and isinstance(kw.value.value, bool)):
                    self.bad(node, "`reverse=` must be a literal")
                reverse = kw.value.value
            else:
                self.bad(node, "keyword `%s` of `%s`" % (kw.arg, fname))
        return key, reverse

    def sorted_call(self, node, fname, xs, txs):
        key, reverse = self.key_func(node, fname)
        if txs[0] != "list" or txs[1] is None:
            self.bad(node, "`%s` of a value of type %r" % (fname, txs))
        if key is None:
            kt, kf = txs[1], "id"
        else:
            kf, kt = key
            if txs[1] != STR:
                self.bad(node, "key function on elements of type %r" % (txs[1],))
        lt = {VERSION: "verLt", STR: "strLt", NAT: "(fun a b => decide (a < b))",
              INT: "(fun a b => decide (a < b))"}.get(kt)
        if lt is None:
            self.bad(node, "no `<` for keys of type %r" % (kt,))
        return lt, kf, reverse

    def call(self, node, env):
        f = node.func
        fname = ast.unparse(f)
        if fname in ("sys.exit", "exit"):
            self.bad(node, "`sys.exit` is only supported as a statement")
        if fname in CALLEES:
            return self.call_callee(node, env, fname, CALLEES[fname])
        if fname in BY_FUNC and fname != self.fn:
            sp = BY_FUNC[fname]
            cal = dict(lean=sp["name"], ctx=sp.get("ctx", []), params=sp["params"], kwonly=sp.get("kwonly", len(sp["params"])),
                       defaults={k: (("true" if v else "false"), BOOL) if isinstance(v, bool) else ("none", NONE)
                                 for k, v in sp.get("defaults", {}).items()},
                       ret=sp["ret"], raises=sp["effect"])
            if sp.get("xparams"):
                self.bad(node, "a translated callee with extra parameters")
            if sp["name"] not in self.used_callees:
                self.used_callees.append(sp["name"])
            return self.call_callee(node, env, fname, cal)
        # method of a module-valued conditional: distribute the call over the two modules
        if isinstance(f, ast.Attribute) and isinstance(f.value, ast.Name) and f.value.id in env \
                and env[f.value.id].type[0] == "modsel":
            _, c, ma, mb = env[f.value.id].type
            outs = []
            for m in (ma, mb):
                nm = "%s.%s" % (m, f.attr)
                if nm not in CALLEES:
                    self.bad(node, "`%s` is not in the callee table" % nm)
                saved_h, self.hoists = self.hoists, []
                try:
                    v, t = self.call_callee(node, env, nm, CALLEES[nm])
                    hs = self.hoists
                finally:
                    self.hoists = saved_h
                if len(hs) != 1 or hs[0][0] != v:
                    self.bad(node, "arguments that can raise in a call through a module-valued variable")
                outs.append((hs[0][1], t))
            if outs[0][1] != outs[1][1]:
                # different result types: only the effect can be used (the value is typed `Unit`)
                return self.hoist(node, "(if %s then (Except.map (fun _ => ()) %s) else (Except.map (fun _ => ()) %s))"
                                  % (c, outs[0][0], outs[1][0]), "r"), UNIT
            return self.hoist(node, "(if %s then %s else %s)" % (c, outs[0][0], outs[1][0]), "r"), outs[0][1]
        if fname in ("reversed", "list", "tuple") and len(node.args) == 1 and not node.keywords:
            a, ta = self.expr(node.args[0], env)
            if ta[0] != "list":
                self.bad(node, "`%s` of a value of type %r" % (fname, ta))
            return ("(List.reverse %s)" % a if fname == "reversed" else a), ta
        if fname in ("itertools.dropwhile", "dropwhile", "itertools.takewhile", "takewhile") and len(node.args) == 2 \
                and not node.keywords:
            lam = node.args[0]
            if not (isinstance(lam, ast.Lambda) and len(lam.args.args) == 1 and not lam.args.defaults
                    and not lam.args.vararg and not lam.args.kwarg and not lam.args.kwonlyargs):
                self.bad(node, "`dropwhile` needs a one-parameter lambda")
            xs, txs = self.expr(node.args[1], env)
            if txs[0] != "list" or txs[1] is None:
                self.bad(node, "`dropwhile` over a value of type %r" % (txs,))
            x = lean_ident(lam.args.args[0].arg)
            env2 = dict(env)
            env2[lam.args.args[0].arg] = Var(x, txs[1])
            saved_h, self.hoists = self.hoists, None
            try:
                b = self.cond(lam.body, env2, lambda e: "true", lambda e: "false", as_bool=True)
            finally:
                self.hoists = saved_h
            prim = "List.dropWhile" if "dropwhile" in fname else "List.takeWhile"
            return "(%s (fun %s => %s) %s)" % (prim, x, b, xs), txs
        if fname == "sorted" and len(node.args) == 1:
            xs, txs = self.expr(node.args[0], env)
            lt, kf, reverse = self.sorted_call(node, "sorted", xs, txs)
            return "(%s %s %s %s)" % ("pySortedRev" if reverse else "pySorted", lt, kf, xs), txs
        if fname in ("max", "min") and len(node.args) == 1:
            xs, txs = self.expr(node.args[0], env)
            lt, kf, _ = self.sorted_call(node, fname, xs, txs)
            prim = "pyMaxBy" if fname == "max" else "pyMinBy"
            v = self.hoist(node, "(match %s %s %s %s with | none => Except.error Exc.valueError | some x => Except.ok x)"
                           % (prim, lt, kf, xs), "best")
            return v, txs[1]
        if isinstance(f, ast.Attribute) and f.attr == "join" and len(node.args) == 1 and not node.keywords:
            sep, ts = self.expr(f.value, env)
            xs, txs = self.expr(node.args[0], env)
            if ts != STR or txs != LIST(STR):
                self.bad(node, "`join` on %r and %r" % (ts, txs))
            return "(join %s %s)" % (sep, xs), STR
        if isinstance(f, ast.Attribute) and f.attr == "exists" and not node.args and not node.keywords:
            p, tp = self.expr(f.value, env)
            if tp != PATH:
                self.bad(node, "`.exists()` on a value of type %r" % (tp,))
            self.need_ctx(node, "path_exists")
            return "(path_exists %s)" % p, BOOL
        if fname in ("dt.datetime.strptime", "datetime.strptime") and len(node.args) == 2 and not node.keywords:
            a, ta = self.expr(node.args[0], env)
            b, tb = self.expr(node.args[1], env)
            if ta != STR or tb != STR:
                self.bad(node, "strptime on %r and %r" % (ta, tb))
            self.need_ctx(node, "strptime")
            v = self.hoist(node, "(match strptime %s %s with | none => Except.error Exc.valueError | some x => Except.ok x)" % (a, b), "dtv")
            return v, DATETIME
        if isinstance(f, ast.Attribute) and f.attr == "date" and not node.args and not node.keywords:
            a, ta = self.expr(f.value, env)
            if ta != DATETIME:
                self.bad(node, "`.date()` on a value of type %r" % (ta,))
            self.need_ctx(node, "datetime_date")
            return "(datetime_date %s)" % a, DATE
        return TF.FuncTranslator.call(self, node, env)

    def need_ctx(self, node, name):
        if name not in self.spec.get("ctx", []):
            self.bad(node, "needs the ambient parameter `%s`, which `%s` does not have" % (name, self.fn))

    def binop(self, node, env):
        if isinstance(node.op, ast.Div):
            a, ta = self.expr(node.left, env)
            b, tb = self.expr(node.right, env)
            if ta == PATH and tb == STR:
                self.need_ctx(node, "path_join")
                return "(path_join %s %s)" % (a, b), PATH
            self.bad(node, "`/` on %r and %r" % (ta, tb))
        return TF.FuncTranslator.binop(self, node, env)

    def truthy_of(self, lean, t, node):
        if t == BYTES:
            return "(!%s.isEmpty)" % lean
        if t[0] == "opt" and t[1][0] == "opaque":
            return "(%s != none)" % lean
        return TF.FuncTranslator.truthy_of(self, lean, t, node)

    # -- conditions: isinstance on the int|str union; tests that can raise --------------------
    def isinstance_atom(self, node, env):
        if (isinstance(node, ast.Call) and ast.unparse(node.func) == "isinstance" and len(node.args) == 2
                and isinstance(node.args[0], ast.Name) and node.args[0].id in env
                and env[node.args[0].id].type == LOCSEG and isinstance(node.args[1], ast.Name)
                and node.args[1].id in ("int", "str")):
            return node.args[0].id, node.args[1].id
        return None

    def needs_split(self, node, env):
        if self.isinstance_atom(node, env):
            return True
        return TF.FuncTranslator.needs_split(self, node, env)

    def cond(self, test, env, tk, ek, as_bool=False, top=True):
        atom = self.isinstance_atom(test, env)
        if atom is not None:
            name, cls = atom
            var = env[name]
            vi, vs = self.fresh(name), self.fresh(name)
            ei, es = dict(env), dict(env)
            ei[name] = Var(vi, NAT, narrowed_from=var)
            es[name] = Var(vs, STR, narrowed_from=var)
            ik, sk = (tk, ek) if cls == "int" else (ek, tk)
            return "(match %s with\n  | .num %s => %s\n  | .str %s => %s)" % (
                var.lean, vi, _arm(ik(ei)), vs, _arm(sk(es)))
        return TF.FuncTranslator.cond(self, test, env, tk, ek, as_bool=as_bool, top=top)

    # -- statements --------------------------------------------------------------------------------
    def block(self, stmts, env, k):
        if not stmts:
            return k(env)
        st, rest = stmts[0], stmts[1:]

        def kr(e):
            return self.block(rest, e, k)
        if self.is_dropped(st):
            return kr(env)
        if isinstance(st, ast.Raise):
            exc = st.exc
            name = ast.unparse(exc.func) if isinstance(exc, ast.Call) else (ast.unparse(exc) if exc is not None else "")
            if name != "ValueError":
                self.bad(st, "only `raise ValueError(...)` is supported")
            if self.handlers:
                self.bad(st, "`raise` inside a `try`")
            return self.exit_term("Exc.valueError", st)
        if isinstance(st, ast.Expr) and isinstance(st.value, ast.Call):
            call = st.value
            nm = ast.unparse(call.func)
            if nm in ("sys.exit", "exit"):
                if len(call.args) != 1 or call.keywords or not (isinstance(call.args[0], ast.Constant)
                                                                and isinstance(call.args[0].value, int)
                                                                and not isinstance(call.args[0].value, bool)):
                    self.bad(st, "`sys.exit` needs one integer literal")
                return self.exit_term("(Exc.sysExit %d)" % call.args[0].value, st)
            # xs.sort(key=…, reverse=…)
            if isinstance(call.func, ast.Attribute) and call.func.attr == "sort" and isinstance(call.func.value, ast.Name) \
                    and not call.args:
                name = call.func.value.id
                if name not in env:
                    self.bad(st, "unknown name `%s`" % name)
                var = env[name]
                lt, kf, reverse = self.sorted_call(call, "sort", var.lean, var.type)
                env2 = dict(env)
                env2[name] = Var(lean_ident(name), var.type)
                return "let %s := (%s %s %s %s);\n%s" % (lean_ident(name), "pySortedRev" if reverse else "pySorted",
                                                          lt, kf, var.lean, kr(env2))
            # a call whose value is discarded: only its effect (an exception) remains
            if effect_of_callee(nm) or (isinstance(call.func, ast.Attribute) and isinstance(call.func.value, ast.Name)
                                        and call.func.value.id in env and env[call.func.value.id].type[0] == "modsel"):
                return self.with_hoists(lambda: self.expr(call, env), lambda _: kr(env))
        if isinstance(st, ast.If):
            sel = self.module_select(st, env)
            if sel is not None:
                return self.block([sel] + list(rest), env, k)
        if isinstance(st, ast.Try):
            return self.try_stmt(st, rest, env, k)
        if isinstance(st, ast.With):
            return self.with_stmt(st, rest, env, k)
        if isinstance(st, ast.AnnAssign) and st.value is not None and isinstance(st.target, ast.Name):
            # the annotation is not used for typing (the value's static type is)
            return self.assign(st.target.id, lambda: self.expr(st.value, env), env, kr, st)
        return TF.FuncTranslator.block(self, stmts, env, k)

    def module_select(self, st, env):
        """`if c: m = modA` / `else: m = modB`  is the assignment  `m = modA if c else modB`"""
        a = [x for x in st.body if not self.is_dropped(x)]
        b = [x for x in st.orelse if not self.is_dropped(x)]
        if len(a) != 1 or len(b) != 1:
            return None
        for x in (a[0], b[0]):
            if not (isinstance(x, ast.Assign) and len(x.targets) == 1 and isinstance(x.targets[0], ast.Name)
                    and isinstance(x.value, ast.Name) and x.value.id in MODULES and x.value.id not in env):
                return None
        if a[0].targets[0].id != b[0].targets[0].id:
            return None
        new = ast.Assign(targets=[ast.Name(id=a[0].targets[0].id, ctx=ast.Store())],
                         value=ast.IfExp(test=st.test, body=a[0].value, orelse=b[0].value))
        ast.copy_location(new, st)
        ast.fix_missing_locations(new)
        return new

    def assign(self, name, compute, env, kr, at):
        def cont(vt):
            v, t = vt
            ln = lean_ident(name)
            env2 = dict(env)
            env2[name] = Var(ln, t)
            if t[0] == "modsel":
                return kr(env2)        # no Lean value: uses are expanded
            if t in (NEGINF, INF):
                # a bare sentinel has no Lean type of its own (`Ext ?α`): the constant is substituted
                env2[name] = Var(v, t)
                return kr(env2)
            return "let %s := %s;\n%s" % (ln, v, kr(env2))
        return self.with_hoists(compute, cont)

    def if_stmt(self, st, rest, env, k):
        # a test that can raise: evaluate it first (hoisted), then branch on a Bool
        if self.has_effect(st.test):
            if self.needs_split(st.test, env):
                self.bad(st, "a test that both narrows and can raise")

            def cont(b):
                return "(if %s then %s else %s)" % (
                    b, _nl(self.block(st.body, env, lambda e: self.block(rest, e, k))),
                    _nl(self.block(st.orelse, env, lambda e: self.block(rest, e, k))))
            return self.with_hoists(lambda: self.truthy(st.test, env), cont)
        return TF.FuncTranslator.if_stmt(self, st, rest, env, k)

    def try_stmt(self, st, rest, env, k):
        if not self.effect:
            self.bad(st, "`try` inside a function declared free of effects")
        if st.orelse or st.finalbody or len(st.handlers) != 1:
            self.bad(st, "only `try: … except Cls: …` with one handler, without else/finally")
        h = st.handlers[0]
        cls = ast.unparse(h.type) if h.type is not None else None
        if cls not in EXC_CLASSES:
            self.bad(st, "handler for `%s` (supported: %s)" % (cls, ", ".join(sorted(EXC_CLASSES))))
        if h.name is not None and any(isinstance(n, ast.Name) and n.id == h.name for b in h.body for n in ast.walk(b)):
            self.bad(st, "the handler uses the exception object")
        outer = list(self.handlers)

        def kr(e):
            return self.block(rest, e, k)

        def handler():
            # variables assigned inside the try body are not visible here (conservative)
            return self.block(h.body, env, kr)

        def after(e):
            saved = self.handlers
            self.handlers = outer
            try:
                return kr(e)
            finally:
                self.handlers = saved
        self.handlers = outer + [(EXC_CLASSES[cls], handler)]
        try:
            return self.block(st.body, env, after)
        finally:
            self.handlers = outer

    def with_stmt(self, st, rest, env, k):
        # with P.open(mode="rb") as f: data = f.read()
        ok = (len(st.items) == 1 and isinstance(st.items[0].optional_vars, ast.Name)
              and isinstance(st.items[0].context_expr, ast.Call)
              and isinstance(st.items[0].context_expr.func, ast.Attribute)
              and st.items[0].context_expr.func.attr == "open")
        if not ok:
            self.bad(st, "only `with p.open(mode=\"rb\") as f: data = f.read()`")
        call = st.items[0].context_expr
        mode = None
        if len(call.args) == 1 and isinstance(call.args[0], ast.Constant) and not call.keywords:
            mode = call.args[0].value
        elif not call.args and len(call.keywords) == 1 and call.keywords[0].arg == "mode" \
                and isinstance(call.keywords[0].value, ast.Constant):
            mode = call.keywords[0].value.value
        if mode != "rb":
            self.bad(st, "the file must be opened with mode \"rb\"")
        f = st.items[0].optional_vars.id
        body = [s for s in st.body if not self.is_dropped(s)]
        if not (len(body) == 1 and isinstance(body[0], ast.Assign) and len(body[0].targets) == 1
                and isinstance(body[0].targets[0], ast.Name) and ast.unparse(body[0].value) == "%s.read()" % f):
            self.bad(st, "the body of the `with` must be `data = %s.read()`" % f)
        p, tp = self.expr(call.func.value, env)
        if tp != PATH:
            self.bad(st, "`.open` on a value of type %r" % (tp,))
        self.need_ctx(st, "read_bytes")
        name = body[0].targets[0].id
        env2 = dict(env)
        env2[name] = Var(lean_ident(name), BYTES)
        return "let %s := (read_bytes %s);\n%s" % (lean_ident(name), p, self.block(rest, env2, k))

    def for_stmt(self, st, rest, env, k):
        body = [s for s in st.body if not self.is_dropped(s)]
        has_ret = any(isinstance(n, ast.Return) for s in body for n in ast.walk(s))
        last = body[-1] if body else None
        bool_idiom = (isinstance(last, ast.If) and not last.orelse and len(last.body) == 1
                      and isinstance(last.body[0], ast.Return) and isinstance(last.body[0].value, ast.Constant)
                      and isinstance(last.body[0].value.value, bool))
        if has_ret and not bool_idiom:
            return self.find_loop(st, body, rest, env, k)
        has_break = any(isinstance(n, ast.Break) for s_ in body for n in ast.walk(s_))
        if has_break and not has_ret:
            return self.break_loop(st, body, rest, env, k)
        if self.effect and not has_ret and any(self.has_effect(s_) for s_ in body):
            return self.monadic_for(st, body, rest, env, k)
        return TF.FuncTranslator.for_stmt(self, st, rest, env, k)

    def break_loop(self, st, body, rest, env, k):
        """for x in xs: if c: ASSIGNMENTS; break      (no else, nothing else in the body)
        -> let (vars) := match xs.find? (fun x => c) with | none => (vars) | some x => ASSIGNMENTS; (vars)"""
        if st.orelse or not isinstance(st.target, ast.Name):
            self.bad(st, "only `for name in xs:` without else")
        ok = (len(body) == 1 and isinstance(body[0], ast.If) and not body[0].orelse and body[0].body
              and isinstance(body[0].body[-1], ast.Break))
        if not ok:
            self.bad(st, "`break` is only supported as `for x in xs: if c: assignments; break`")
        inner = [s_ for s_ in body[0].body[:-1] if not self.is_dropped(s_)]
        for s_ in inner:
            if not isinstance(s_, (ast.Assign, ast.AnnAssign, ast.AugAssign)) or self.has_effect(s_):
                self.bad(st, "before `break` only assignments without effects")
        if self.has_effect(body[0].test):
            self.bad(st, "the test of a `break` loop can raise")
        xs, et = self.iterable(st.iter, env)
        x = lean_ident(st.target.id)
        env_in = dict(env)
        env_in[st.target.id] = Var(x, et)
        saved_h, self.hoists = self.hoists, None
        try:
            c = self.cond(body[0].test, env_in, lambda e: "true", lambda e: "false", as_bool=True)
            saved = self.counter
            probes = []
            self.block(inner, env_in, lambda e: (probes.append(e), "?")[1])
            self.counter = saved
            names = self.changed_vars(env_in, probes)
            for n in names:
                if n not in env:
                    self.bad(st, "`%s` is assigned before `break` but not defined before the loop" % n)
            if not names:
                return self.block(rest, env, k)
            types = {}
            for n in names:
                t = self.unify(env[n].type, probes[0][n].type)
                if t is None:
                    self.bad(st, "cannot type `%s` after the loop" % n)
                types[n] = INT if t == LIT else t

            def tup(e):
                vals = [self.coerce(e[n].lean, e[n].type, types[n], st) for n in names]
                return vals[0] if len(vals) == 1 else "(" + ", ".join(vals) + ")"
            found = self.block(inner, env_in, tup)
            notfound = tup(env)
        finally:
            self.hoists = saved_h
        lean = "(match (List.find? (fun %s => %s) %s) with\n  | none => %s\n  | some %s => %s)" % (
            x, c, xs, _arm(notfound), x, _arm(found))
        env2 = dict(env)
        for n in names:
            env2[n] = Var(lean_ident(n), types[n])
        if len(names) == 1:
            return "let %s := %s;\n%s" % (lean_ident(names[0]), lean, self.block(rest, env2, k))
        pat = "(" + ", ".join(lean_ident(n) for n in names) + ")"
        return "(match %s with\n  | %s => %s)" % (lean, pat, _arm(self.block(rest, env2, k)))

    def monadic_for(self, st, body, rest, env, k):
        """an accumulation loop whose body can raise: `pyForM step init xs` (Model/CliPrims.lean), the first
        exception ends the loop and is handled / propagated where the loop stands"""
        if st.orelse or not isinstance(st.target, ast.Name):
            self.bad(st, "only `for name in xs:` without else")
        for s_ in body:
            for n in ast.walk(s_):
                if isinstance(n, (ast.Break, ast.Return, ast.For, ast.While, ast.Try)):
                    self.bad(st, "break/return/nested loops/try in a loop whose body can raise")
        if self.has_effect(st.iter):
            self.bad(st, "an iterable that can raise")
        xs, et = self.iterable(st.iter, env)
        x = lean_ident(st.target.id)
        env_in = dict(env)
        env_in[st.target.id] = Var(x, et)

        def run_body(e, kk):
            self.loop_k.append(kk)
            self.in_loop += 1
            try:
                return self.block(body, e, kk)
            finally:
                self.loop_k.pop()
                self.in_loop -= 1

        def probe(e):
            saved = self.counter
            probes = []
            run_body(e, lambda e_: (probes.append(e_), "?")[1])
            self.counter = saved
            return probes
        probes = probe(env_in)
        names = [n for n in self.changed_vars(env_in, probes) if n in env]
        if not names:
            self.bad(st, "a loop whose body can raise but assigns nothing")
        types = {}
        for n in names:
            t = env[n].type
            for pe in probes:
                t = self.unify(t, pe[n].type) if t is not None else None
            if t is None or (t[0] == "list" and t[1] is None):
                self.bad(st, "cannot type the loop-carried variable `%s`" % n)
            types[n] = INT if t == LIT else t
        env_body = dict(env_in)
        for n in names:
            env_body[n] = Var(lean_ident(n), types[n])
        for pe in probe(env_body):
            for n in names:
                if self.unify(pe[n].type, types[n]) != types[n]:
                    self.bad(st, "the type of `%s` changes from iteration to iteration" % n)

        def tup(e):
            vals = [self.coerce(e[n].lean, e[n].type, types[n], st) for n in names]
            return vals[0] if len(vals) == 1 else "(" + ", ".join(vals) + ")"
        step = run_body(env_body, lambda e: "(.ok %s)" % tup(e))
        tys = [self.lean_type(types[n]) for n in names]
        sty = tys[0] if len(tys) == 1 else " × ".join(tys)
        pat = lean_ident(names[0]) if len(names) == 1 else "(" + ", ".join(lean_ident(n) for n in names) + ")"
        fold = "(pyForM (fun (st : %s) (%s : %s) =>\n    (match st with\n      | %s =>\n%s))\n  %s\n  %s)" % (
            sty, x, self.lean_type(et), pat, indent(step, 8), tup(env), xs)
        env2 = dict(env)
        for n in names:
            env2[n] = Var(lean_ident(n), types[n])
        return "(match %s with\n  | .error ex => %s\n  | .ok %s => %s)" % (
            fold, _arm(self.on_error()), pat, _arm(self.block(rest, env2, k)))

    def find_loop(self, st, body, rest, env, k):
        """for x in xs: … return e …   ->   match xs.findSome? (fun x => …) with | some r => r | none => rest"""
        if st.orelse or not isinstance(st.target, ast.Name):
            self.bad(st, "only `for name in xs:` without else")
        if self.effect or self.loop_ret:
            self.bad(st, "a searching loop inside a function with effects / inside another searching loop")
        for s in body:
            for n in ast.walk(s):
                if isinstance(n, (ast.Break, ast.For, ast.While)):
                    self.bad(st, "break/nested loops in a searching loop")
        xs, et = self.iterable(st.iter, env)
        x = lean_ident(st.target.id)
        env_in = dict(env)
        env_in[st.target.id] = Var(x, et)
        # no loop-carried variables: nothing assigned in the body may be defined before the loop
        for s in body:
            for n in ast.walk(s):
                if isinstance(n, ast.Name) and isinstance(n.ctx, ast.Store) and n.id in env:
                    self.bad(st, "the searching loop assigns `%s`, which is defined before the loop" % n.id)
        self.loop_ret = True
        self.loop_k.append(lambda e: "none")      # `continue`: this element yields nothing, on to the next one
        try:
            inner = self.block(body, env_in, lambda e: "none")
        finally:
            self.loop_ret = False
            self.loop_k.pop()
        after = self.block(rest, env, k)
        return "(match (List.findSome? (fun %s =>\n%s) %s) with\n  | some r => r\n  | none => %s)" % (
            x, indent(inner, 4), xs, _arm(after))

    # -- the whole function -----------------------------------------------------------------------
    def translate(self):
        spec = self.spec
        src, node = self.src.find(spec["file"], ast.FunctionDef, spec["func"])
        if node is None:
            raise Untranslatable(self.fn, None, "function not found in %s" % spec["file"])
        self.source_text = ast.get_source_segment(src, node)
        a = node.args
        if a.vararg or a.kwarg or a.posonlyargs:
            self.bad(node, "*args / **kwargs / positional-only parameters")
        pynames = [x.arg for x in a.args] + [x.arg for x in a.kwonlyargs]
        if pynames != [p for p, _ in spec["params"]]:
            self.bad(node, "parameters are %s, the signature table expects %s" % (pynames, [p for p, _ in spec["params"]]))
        if len(a.args) != spec.get("kwonly", len(spec["params"])):
            self.bad(node, "the split into positional and keyword-only parameters differs from the signature table")
        # defaults: must be the ones the signature table records (the callers rely on them)
        found = {}
        for arg, d in zip(a.args[len(a.args) - len(a.defaults):], a.defaults):
            found[arg.arg] = d
        for arg, d in zip(a.kwonlyargs, a.kw_defaults):
            if d is not None:
                found[arg.arg] = d
        want = spec.get("defaults", {})
        if set(found) != set(want):
            self.bad(node, "parameters with defaults are %s, the signature table expects %s" % (sorted(found), sorted(want)))
        for n, d in found.items():
            if not (isinstance(d, ast.Constant) and d.value is want[n] or
                    (isinstance(d, ast.Constant) and type(d.value) is type(want[n]) and d.value == want[n])):
                self.bad(node, "default of `%s` is `%s`, the signature table expects `%r`" % (n, ast.unparse(d), want[n]))
        env = {}
        params = []
        for c in spec.get("ctx", []):
            params.append("(%s : %s)" % (c, CTX_TYPES[c]))
        for key, (ln, t) in spec.get("xparams", {}).items():
            params.append("(%s : %s)" % (ln, self.lean_type(t)))
        for p, t in spec["params"]:
            if t[0] == "rec":
                self.record(t[1])
            env[p] = Var(lean_ident(p), t)
            params.append("(%s : %s)" % (lean_ident(p), self.lean_type(t)))
        rt = self.lean_type(spec["ret"])
        if self.effect:
            rt = "Except Exc (%s)" % rt if " " in rt and not rt.startswith("(") else "Except Exc " + rt

        def fall_off(e):
            return self.ret(None, e, node)
        body = self.block(list(node.body), env, fall_off)
        for key, (ln, _) in spec.get("xparams", {}).items():
            if ln not in body:
                self.bad(node, "the expression `%s` (abstracted as parameter `%s`) does not occur" % (key, ln))
        head = "def %s %s%s : %s :=" % (spec["name"], (spec["implicit"] + " ") if spec.get("implicit") else "",
                                       " ".join(params), rt)
        return [], head + "\n" + indent(body, 2) + "\n"


# ----------------------------------------------------------------------------------
# file generation
# ----------------------------------------------------------------------------------
GENERATOR = "harness/translate_cli.py"


def header(spec, text, note):
    return [
        "/- GENERATED by %s from the Python AST. Do not edit." % GENERATOR,
        "   source   : src/bumpver/%s" % spec["file"],
        "   function : %s" % spec["func"],
        "   sha256   : %s%s" % (sha256(text) if text else "(function not found)", note),
    ]


def render(spec, sources):
    fname = "F_%s.lean" % spec["name"]
    tr = CliTranslator(spec, sources)
    try:
        _, body = tr.translate()
    except Untranslatable as ex:
        text = getattr(tr, "source_text", None)
        lines = header(spec, text, "") + [
            "",
            "   UNTRANSLATABLE: %s" % str(ex).replace("-/", "- /"),
            "   (no definition is generated; BV.tie_%s cannot compile until this is resolved) -/" % spec["name"],
            "",
        ]
        return fname, "\n".join(lines), ex
    except Exception as ex:  # unreadable / unparsable source, or an internal error: never a silent success
        lines = [
            "/- GENERATED by %s. Do not edit." % GENERATOR,
            "   source   : src/bumpver/%s" % spec["file"],
            "   function : %s" % spec["func"],
            "",
            "   UNTRANSLATABLE: the source could not be read/parsed/translated: %s: %s -/"
            % (type(ex).__name__, str(ex).replace("-/", "- /")),
            "",
        ]
        return fname, "\n".join(lines), ex
    lines = header(spec, tr.source_text, "  (of the function's source text) -/")
    imports = list(spec["imports"])
    if spec.get("types"):
        imports.append("BumpverVerif.Gen.%s" % TYPES_FILE)
    for c in tr.used_callees:
        imports.append("BumpverVerif.Gen.F_%s" % c)
    for imp in imports:
        lines.append("import %s" % imp)
    lines.append("set_option linter.unusedVariables false")
    lines.append("namespace BV.GenC")
    lines.append("")
    lines.append("/-- `%s.%s` -/" % (spec["file"][:-3], spec["func"]))
    lines.append(body)
    lines.append("end BV.GenC")
    lines.append("")
    return fname, "\n".join(lines), None


def render_types(sources):
    """Gen/F_cliTypes.lean: enum TagScope and structure Config, generated from the class definitions"""
    fname = "%s.lean" % TYPES_FILE
    spec = dict(name="cliTypes", file="config.py", func="<class definitions TagScope, Config>", params=[], ret=UNIT)
    tr = CliTranslator(spec, sources)
    try:
        decls = [tr.decl("enum", "TagScope"), tr.decl("rec", "Config")]
        srcs = []
        for cls in ("TagScope", "Config"):
            src, node = sources.find("config.py", ast.ClassDef, cls)
            srcs.append(ast.get_source_segment(src, node))
    except Exception as ex:
        lines = [
            "/- GENERATED by %s. Do not edit." % GENERATOR,
            "   source   : src/bumpver/config.py (classes TagScope, Config)",
            "",
            "   UNTRANSLATABLE: %s -/" % str(ex).replace("-/", "- /"),
            "",
        ]
        return fname, "\n".join(lines), ex
    lines = [
        "/- GENERATED by %s from the class definitions. Do not edit." % GENERATOR,
        "   source   : src/bumpver/config.py (classes TagScope, Config)",
        "   sha256   : %s  (of the two class definitions) -/" % sha256("\n".join(srcs)),
        "import BumpverVerif.Model.Basic",
        "namespace BV.GenC",
        "",
    ]
    lines += decls
    lines.append("end BV.GenC")
    lines.append("")
    return fname, "\n".join(lines), None


def generate(report=None):
    """{filename: content} for lean/BumpverVerif/Gen/"""
    sources = TF.Sources()
    out = {}
    fname, content, err = render_types(sources)
    out[fname] = content
    if report is not None:
        report.append(("config.TagScope/Config", fname, err))
    for spec in FUNCS:
        fname, content, err = render(spec, sources)
        out[fname] = content
        if report is not None:
            report.append((spec["func"], fname, err))
    return out


def main():
    rep = []
    files = generate(rep)
    gen = os.path.join(os.path.dirname(HERE), "lean", "BumpverVerif", "Gen")
    if "--write" in sys.argv:
        for name, content in files.items():
            path = os.path.join(gen, name)
            old = open(path, encoding="utf-8").read() if os.path.exists(path) else None
            if old != content:
                with open(path, "w", encoding="utf-8") as f:
                    f.write(content)
                print("wrote", name)
    for func, fname, err in rep:
        print("%-30s %-30s %s" % (func, fname, "ok" if err is None else "UNTRANSLATABLE: %s" % err))
    if "--show" in sys.argv:
        for name, content in files.items():
            print("=" * 20, name)
            print(content)
    return 0


if __name__ == "__main__":
    sys.exit(main())
