#!/venv/bin/python
"""Python -> Lean function translator, group `v1`: the LEGACY `{...}`-pattern engine
(src/bumpver/v1version.py, v1patterns.py) and `cli.incr_dispatch`.

Extends harness/translate_funcs.py (imported, `FuncTranslator` subclassed; that file is not edited).
For every function of the signature table `FUNCS` the Python source is read with `ast` (never
imported) from $VERIF_REPO/src/bumpver (default /repo), the BODY is translated statement by statement
and written to lean/BumpverVerif/Gen/F_<name>.lean (namespace BV.GenV1).  `Proofs/Tie_<name>.lean`
proves `BV.tie_<name>`: generated definition = hand model (Model/V1.lean) on all inputs.

What is new compared to translate_funcs.py (documented in harness/TRANSLATE_V1.md):
  * EXCEPTIONS: a function marked `monadic` returns `Except V1Err T`; every construct that can raise
    (`d[k]`, `int(None)`, `dt.date(...)`, `lexid.next_id`, callees ...) becomes an `Except.bind` in Python's
    evaluation order; `raise X(...)` is `.error .x`; `try/except X` is a `match` on the error constructor;
  * dicts (`Dict[str, V]` as association lists, newest binding first), `d[k] = v`, `.get`, `in`, `.items()`;
  * the value union `str | int | None` of `format_version`'s kwargs (model type `FV`), `isinstance(v, str)`;
  * tuple-unpacking `for a, b in TABLE.items()`, loops whose body can raise (`List.foldlM`);
  * keyword-only parameters, keyword arguments to callees, f-strings (as `++`, or as an opaque message);
  * `assert`, bare annotations, conditional expressions whose branches can raise.
Anything outside the subset raises `Untranslatable`; the output file then holds a comment only.
"""
import ast
import os
import sys

HERE = os.path.dirname(os.path.abspath(__file__))
sys.path.insert(0, HERE)
import translate_funcs as tf                                                    # noqa: E402
from translate_funcs import (BOOL, INT, NAT, LIT, STR, NONE, OPT, LIST, TUP, REC,  # noqa: E402
                             Untranslatable, Var, indent, lean_str, lean_ident, _nl, _arm, sha256)

# ----------------------------------------------------------------------------------
# additional static types
# ----------------------------------------------------------------------------------
DATE = ("date",)          # datetime.date            -> Nat × Nat × Nat  (year, month, day)
RE = ("re",)              # compiled regex           -> Re
MSG = ("msg",)            # an error / log message   -> Unit (never looked at)
FVT = ("fv",)             # str | int | None         -> FV   (Model/V2Version.lean)
V1CAL = ("v1cal",)        # version.V1CalendarInfo   -> List (Option Nat)   (the model's seven-field list)
UNIT = ("unit",)


def DICT(v):              # Dict[str, v]             -> List (Str × v), newest binding first
    return ("dict", v)


def MATCH(subj, rx):      # re.Match, remembering the Lean terms of the subject string and the regex
    return ("match", subj, rx)


def ERRT(name):           # an Except error type other than the function's own
    return ("errt", name)


# ----------------------------------------------------------------------------------
# records, constants, exception classes, callees
# ----------------------------------------------------------------------------------
V1_RECORDS = {
    # version.V1VersionInfo  <->  Model/V1.lean `V1Info`
    "V1Info": dict(
        lean="V1Info", source=("version.py", "V1VersionInfo"), exact=True,
        fields=[("year", "year", OPT(NAT)), ("quarter", "quarter", OPT(NAT)), ("month", "month", OPT(NAT)),
                ("dom", "dom", OPT(NAT)), ("doy", "doy", OPT(NAT)), ("iso_week", "isoWeek", OPT(NAT)),
                ("us_week", "usWeek", OPT(NAT)), ("major", "major", NAT), ("minor", "minor", NAT),
                ("patch", "patch", NAT), ("bid", "bid", STR), ("tag", "tag", STR)]),
    # patterns.Pattern: only `regexp` is modelled (prelude structure V1Pattern keeps the two strings too)
    "V1Pattern": dict(
        lean="V1Pattern", source=("patterns.py", "Pattern"), exact=True,
        fields=[("version_pattern", "versionPattern", STR), ("raw_pattern", "rawPattern", STR),
                ("regexp", "regexp", RE)]),
}

V1_CONSTRUCTORS = {
    "version.V1VersionInfo": "V1Info",
    "V1VersionInfo": "V1Info",
    "Pattern": "V1Pattern",
    "patterns.Pattern": "V1Pattern",
}

# module-level constants that are GENERATED tables (Gen/V1Tables.lean, Gen/V2Tables.lean): dotted name as
# written in the given file -> (Lean term, type)
TABLE = DICT(STR)
CONSTANTS = {
    "v1version.py": {
        "version.TAG_BY_PEP440_TAG": ("Gen.tagByPep440Tag", TABLE),
        "version.PEP440_TAG_BY_TAG": ("Gen.pep440TagByTag", TABLE),
        "v1patterns.FULL_PART_FORMATS": ("Gen.v1FullPartFormats", TABLE),
        "ID_FIELDS_BY_PART": ("Gen.v1IdFieldsByPart", TABLE),
    },
    "v1patterns.py": {},
    "cli.py": {
        "v1patterns.FULL_PART_FORMATS": ("Gen.v1FullPartFormats", TABLE),
        "v1patterns.PART_PATTERNS": ("Gen.v1PartPatterns", TABLE),
    },
}

# exception class (as written) -> constructor of the model's `V1Err`
EXC = {
    "version.PatternError": "pattern", "PatternError": "pattern",
    "ValueError": "valueError", "TypeError": "typeError", "OverflowError": "overflow",
    "KeyError": "keyError", "NotImplementedError": "notImplemented",
}

# `int(<date>.strftime(FMT), base=10)`: C strftime fields as the model's calendar functions
STRFTIME = {"%j": "dayOfYear", "%W": "weekW", "%U": "weekU"}

# callees that are not translated in the same definition: python name -> description
#   params : [(python parameter name, type)]  (positional order; keyword arguments are matched by name)
#   ret    : result type
#   lean   : format string over the (coerced) arguments, by parameter name
#   raises : the Lean term is an `Except V1Err ret` (hoisted as a bind) instead of a plain value
#   errt   : (optional) the callee's Except error type when it is not V1Err
CALLEES = {
    # version.py
    "version.date_from_doy": dict(params=[("year", NAT), ("doy", NAT)], ret=DATE, raises=True,
                                  lean="(pyDateFromDoy {year} {doy})"),
    "version.quarter_from_month": dict(params=[("month", NAT)], ret=NAT, lean="(BV.quarterFromMonth {month})"),
    "dt.date": dict(params=[("year", NAT), ("month", NAT), ("day", NAT)], ret=DATE, raises=True,
                    lean="(pyDate {year} {month} {day})"),
    "lexid.next_id": dict(params=[("prev_id", STR)], ret=STR, raises=True, lean="(pyNextId {prev_id})"),
    # v1version.py callees represented by MODEL functions
    "_parse_pattern_groups": dict(params=[("pattern_groups", DICT(OPT(STR)))], ret=DICT(OPT(STR)), raises=True,
                                  lean="(BV.v1ParsePatternGroups {pattern_groups})"),
    "_parse_field_values": dict(params=[("field_values", DICT(OPT(STR)))], ret=REC("V1Info"), raises=True,
                                lean="(BV.v1ParseFieldValues {field_values})"),
    "_parse_version_info": dict(params=[("pattern_groups", DICT(OPT(STR)))], ret=REC("V1Info"), raises=True,
                                lean="(BV.v1ParseGroups {pattern_groups})"),
    "parse_version_info": dict(params=[("version_str", STR), ("raw_pattern", STR)], ret=REC("V1Info"), raises=True,
                               lean="(BV.v1ParseVersionInfo {version_str} {raw_pattern})"),
    "format_version": dict(params=[("vinfo", REC("V1Info")), ("raw_pattern", STR)], ret=STR, raises=True,
                           lean="(BV.v1FormatVersion {vinfo} {raw_pattern})"),
    "_ver_to_cal_info": dict(params=[("vnfo", REC("V1Info"))], ret=V1CAL, lean="(BV.V1Info.calList {vnfo})"),
    "cal_info": dict(params=[("date", DATE)], ret=V1CAL, lean="(pyCalInfo {date})"),
    "_is_cal_gt": dict(params=[("left", V1CAL), ("right", V1CAL)], ret=BOOL, lean="(BV.v1IsCalGt {left} {right})"),
    # v1patterns.py
    "v1patterns.compile_pattern": dict(params=[("version_pattern", STR)], ret=REC("V1Pattern"), raises=True,
                                       lean="(pyCompilePattern1 {version_pattern})"),
    "_replace_pattern_parts": dict(params=[("pattern", STR)], ret=STR,
                                   lean="(BV.v1ReplacePatternParts parts {pattern})", needs_extern="parts"),
    "_normalized_pattern": dict(params=[("version_pattern", STR), ("raw_pattern", STR)], ret=STR,
                                lean="(BV.v1NormalizedPattern {version_pattern} {raw_pattern})"),
    "_compile_pattern_re": dict(params=[("normalized_pattern", STR)], ret=RE, raises=True,
                                lean="(BV.v1CompileRe {normalized_pattern})"),
    "re.compile": dict(params=[("pattern", STR)], ret=RE, raises=True, lean="(BV.v1ReOfSrc {pattern})"),
    # cli.py: the two engines (the models take the bump date `maybe_date or TODAY`; `today` is an extra parameter)
    "v1version.incr": dict(
        params=[("old_version", STR), ("raw_pattern", STR), ("major", BOOL), ("minor", BOOL), ("patch", BOOL),
                ("tag", OPT(STR)), ("tag_num", BOOL), ("pin_date", BOOL), ("maybe_date", OPT(DATE))],
        defaults={"major": "false", "minor": "false", "patch": "false", "tag": "none", "tag_num": "false",
                  "pin_date": "false", "maybe_date": "none"},
        ret=OPT(STR), raises=True, needs_extra="today",
        lean="(BV.v1Incr {old_version} {raw_pattern} {{ major := {major}, minor := {minor}, patch := {patch}, tag := {tag}, "
             "tagNum := {tag_num}, pinDate := {pin_date} }} (({maybe_date}).getD today))"),
    "v2version.incr": dict(
        params=[("old_version", STR), ("raw_pattern", STR), ("major", BOOL), ("minor", BOOL), ("patch", BOOL),
                ("tag", OPT(STR)), ("tag_num", BOOL), ("pin_increments", BOOL), ("pin_date", BOOL),
                ("maybe_date", OPT(DATE))],
        defaults={"major": "false", "minor": "false", "patch": "false", "tag": "none", "tag_num": "false",
                  "pin_increments": "false", "pin_date": "false", "maybe_date": "none"},
        ret=OPT(STR), raises=True, errt="PErr", needs_extra="today",
        lean="(BV.incr {old_version} {raw_pattern} {{ major := {major}, minor := {minor}, patch := {patch}, tag := {tag}, "
             "tagNum := {tag_num}, pinIncrements := {pin_increments}, pinDate := {pin_date} }} (({maybe_date}).getD today) today)"),
    "v2patterns.compile_pattern": dict(params=[("version_pattern", STR)], ret=REC("V1Pattern"), raises=True, errt="PErr",
                                       lean="(pyV2CompilePattern1 {version_pattern})"),
}

# ----------------------------------------------------------------------------------
# the trusted primitives (written to Gen/F_v1Prim.lean; fixed text, documented in TRANSLATE_V1.md)
# ----------------------------------------------------------------------------------
PRELUDE = r'''/- GENERATED by harness/translate_v1.py (fixed text). Do not edit.
   The TRUSTED PRIMITIVES the definitions generated for the `v1` group call for Python built-ins, stdlib and
   third-party functions (documented in harness/TRANSLATE_V1.md).  They only wrap model primitives. -/
import BumpverVerif.Model.V1
namespace BV.GenV1

/-- `d[k]` on a dict (association list, newest binding first): KeyError when absent -/
def pyGetItem {α : Type} (d : List (Str × α)) (k : Str) : Except V1Err α :=
  match lookup k d with
  | none => .error .keyError
  | some v => .ok v

/-- `int(x)` for a regex group: `int(None)` is a TypeError; the text is a digit string (the part regexes) -/
def pyInt : Option Str → Except V1Err Nat
  | none => .error .typeError
  | some s => .ok (strToNat s)

/-- callee `version.date_from_doy` = model `dateFromDoy` (`none` = OverflowError) -/
def pyDateFromDoy (year doy : Nat) : Except V1Err (Nat × Nat × Nat) :=
  match dateFromDoy year doy with
  | none => .error .overflow
  | some d => .ok d

/-- `datetime.date(y, m, d)`: ValueError unless `validDate` -/
def pyDate (y m d : Nat) : Except V1Err (Nat × Nat × Nat) :=
  if validDate y m d then .ok (y, m, d) else .error .valueError

/-- a value of static type `Optional[T]` stored where the annotation says `T`: `None` leaves the typed model -/
def pyTyped {α : Type} : Option α → Except V1Err α
  | none => .error .unsupported
  | some v => .ok v

/-- `s.replace(pat, rep)`, also for the empty pattern (`"abc".replace("", "-") == "-a-b-c-"`) -/
def pyReplace (pat rep s : Str) : Str :=
  if pat.isEmpty then rep ++ s.flatMap (fun c => c :: rep) else replaceAll pat rep s

/-- `lexid.next_id(s)` on digit strings (anything else is outside the model); OverflowError at all nines -/
def pyNextId (s : Str) : Except V1Err Str :=
  if !isDigitStr s then .error .unsupported
  else match nextId s with
    | none => .error .overflow
    | some b => .ok b

/-- `str(v)` for `v : str | int | None` -/
def fvStr : FV → Str
  | .nat n => natToStr n
  | .str s => s
  | .none => "None".toList

/-- callee `v1version.cal_info(date)` = model `v1CalInfo` -/
def pyCalInfo (d : Nat × Nat × Nat) : List (Option Nat) := v1CalInfo d.1 d.2.1 d.2.2

/-- `patterns.Pattern` (NamedTuple) -/
structure V1Pattern where
  versionPattern : Str
  rawPattern : Str
  regexp : Re

/-- callee `v1patterns.compile_pattern(p)` (one argument) = model `v1CompilePattern p p` -/
def pyCompilePattern1 (p : Str) : Except V1Err V1Pattern :=
  match v1CompilePattern p p with
  | .error e => .error e
  | .ok r => .ok { versionPattern := p, rawPattern := v1NormalizedPattern p p, regexp := r }

/-- the exceptions of `cli.incr_dispatch`: those of the legacy engine or those of the new one -/
inductive DErr
  | v1 (e : V1Err)
  | v2 (e : PErr)
  deriving DecidableEq, Repr

/-- callee `v2patterns.compile_pattern(p)` (only reached under `-v`): model `compileRe (normalizePattern p p)` -/
def pyV2CompilePattern1 (p : Str) : Except PErr V1Pattern :=
  match compileRe (normalizePattern p p) with
  | none => .error .unsupported
  | some r => .ok { versionPattern := p, rawPattern := normalizePattern p p, regexp := r }

/-- `match.group()`: the matched text -/
def pyGroup0 (s : Str) (m : Match) : Str := (s.drop m.start).take (m.stop - m.start)

/-- a failing `assert`: AssertionError is not an outcome of the model -/
def pyAssert (c : Bool) : Except V1Err Unit := if c then .ok () else .error .unsupported

end BV.GenV1
'''


# ----------------------------------------------------------------------------------
# the translator
# ----------------------------------------------------------------------------------
class V1Translator(tf.FuncTranslator):
    def __init__(self, spec, sources):
        tf.FuncTranslator.__init__(self, spec, sources)
        self.monadic = bool(spec.get("monadic"))
        self.errt = spec.get("err", "V1Err")
        self.effects = 0
        self.consts = dict(CONSTANTS.get(spec["file"], {}))
        self.consts.update(spec.get("consts", {}))

    # -- small helpers -------------------------------------------------------------------------
    def ok(self, v):
        return "(Except.ok %s)" % v

    def err(self, ctor):
        self.effects += 1
        if not self.monadic:
            self.bad(None, "an exception in a function translated as pure")
        return "(Except.error %s.%s)" % (self.errt, ctor)

    def hoist(self, node, lean, base="v"):
        """`lean` : Except V1Err T is evaluated HERE (Python evaluation order); returns the bound name"""
        if not self.monadic:
            self.bad(node, "a construct that can raise, in a function translated as pure")
        if self.hoists is None:
            self.bad(node, "a construct that can raise is only supported inside an assignment, return or "
                           "expression statement (not in a test or a generator)")
        v = self.fresh(base)
        self.hoists.append((v, lean))
        self.effects += 1
        return v

    def with_hoists(self, compute, cont):
        saved = self.hoists
        self.hoists = []
        try:
            val = compute()
            hs = self.hoists
        finally:
            self.hoists = saved
        body = cont(val)
        for name, e in reversed(hs):
            body = "(Except.bind %s (fun %s =>\n%s))" % (e, name, indent(body, 2))
        return body

    def probe(self, fn):
        """run `fn` for its side information only: -> (result, did it produce effects?)"""
        saved_c, saved_e, saved_h = self.counter, self.effects, self.hoists
        try:
            r = fn()
            eff = self.effects > saved_e
        finally:
            self.counter, self.effects, self.hoists = saved_c, saved_e, saved_h
        return r, eff

    # -- type environment ---------------------------------------------------------------------------
    def record(self, name):
        if name not in V1_RECORDS:
            return tf.FuncTranslator.record(self, name)
        if name in self.records:
            return self.records[name]
        d = V1_RECORDS[name]
        fname, cls = d["source"]
        pyfields = self.src.class_fields(fname, cls, self.fn)
        names = [f for f, _ in pyfields]
        mine = [f for f, _, _ in d["fields"]]
        if names != mine:
            self.bad(None, "fields of %s.%s are %s, the signature table expects %s" % (fname, cls, names, mine))
        r = dict(d)
        r["pyorder"] = names
        self.records[name] = r
        return r

    def lean_type(self, t):
        k = t[0]
        if k == "date":
            return "(Nat × Nat × Nat)"
        if k == "re":
            return "Re"
        if k in ("msg", "unit"):
            return "Unit"
        if k == "fv":
            return "FV"
        if k == "v1cal":
            return "List (Option Nat)"
        if k == "match":
            return "Match"
        if k == "dict":
            inner = self.lean_type(t[1])
            return "List (Str × %s)" % (("(%s)" % inner) if " " in inner and not inner.startswith("(") else inner)
        if k == "rec" and t[1] in V1_RECORDS:
            return V1_RECORDS[t[1]]["lean"]
        if k == "tuple":
            return "(" + " × ".join(self.paren_type(x) for x in t[1]) + ")"
        return tf.FuncTranslator.lean_type(self, t)

    def unify(self, a, b):
        if a == b:
            return a
        fvlike = (STR, NAT, LIT, NONE, OPT(NAT), FVT)
        if (a == FVT and b in fvlike) or (b == FVT and a in fvlike):
            return FVT
        if a[0] == "dict" and b[0] == "dict":
            if a[1] is None:
                return b
            if b[1] is None:
                return a
            u = self.unify(a[1], b[1])
            return DICT(u) if u else None
        return tf.FuncTranslator.unify(self, a, b)

    def coerce(self, lean, frm, to, node=None):
        if frm == to:
            return lean
        if to == FVT:
            if frm == STR:
                return "(FV.str %s)" % lean
            if frm in (NAT, LIT):
                return "(FV.nat %s)" % lean
            if frm == NONE:
                return "FV.none"
            if frm == OPT(NAT):
                return "(optNat %s)" % lean
        if to[0] == "dict" and frm[0] == "dict" and (frm[1] is None or frm[1] == to[1]):
            return lean
        if to[0] == "opt" and frm[0] not in ("opt", "none") and to[1] != frm:
            inner = self.coerce(lean, frm, to[1], node)
            return "(some %s)" % inner
        return tf.FuncTranslator.coerce(self, lean, frm, to, node)

    def coerce_slot(self, lean, frm, to, node):
        """a value stored into an annotated slot (record field): Optional[T] where T is expected is accepted,
        the None case leaves the typed model (`pyTyped`: unsupported)"""
        if frm[0] == "opt" and to[0] != "opt" and self.unify(frm[1], to) == to:
            v = self.hoist(node, "(pyTyped %s)" % lean, "t")
            return self.coerce(v, frm[1], to, node)
        return self.coerce(lean, frm, to, node)

    # -- expressions ---------------------------------------------------------------------------------
    def expr(self, node, env):
        if isinstance(node, (ast.Attribute, ast.Name)):
            key = ast.unparse(node)
            if key in self.consts and not (isinstance(node, ast.Name) and node.id in env):
                return self.consts[key]
        if isinstance(node, ast.JoinedStr):
            return self.fstring(node, env)
        if isinstance(node, ast.Subscript):
            r = self.subscript(node, env)
            if r is not None:
                return r
        if isinstance(node, ast.Attribute):
            ext = self.spec.get("externs", {})
            if ast.unparse(node) not in ext:
                val, t = self.expr(node.value, env)
                if t == DATE:
                    path = {"year": ".1", "month": ".2.1", "day": ".2.2"}.get(node.attr)
                    if path is None:
                        self.bad(node, "date attribute `%s`" % node.attr)
                    return "%s%s" % (val, path), NAT
                if t[0] == "rec":
                    r = self.record(t[1])
                    for f, path, ft in r["fields"]:
                        if f == node.attr:
                            return "%s.%s" % (val, path), ft
                    self.bad(node, "record %s has no (modelled) field `%s`" % (t[1], node.attr))
                self.bad(node, "attribute `%s` of a value of type %r" % (node.attr, t))
        return tf.FuncTranslator.expr(self, node, env)

    def fstring(self, node, env):
        """an f-string: `++` of its pieces when every interpolation is a plain `str` value, else an opaque
        message (error / log texts are not modelled)"""
        def as_concat():
            parts = []
            for v in node.values:
                if isinstance(v, ast.Constant) and isinstance(v.value, str):
                    if v.value:
                        parts.append(lean_str(v.value))
                elif isinstance(v, ast.FormattedValue):
                    if v.format_spec is not None or v.conversion != -1:
                        raise Untranslatable(self.fn, v, "format spec")
                    e, t = self.expr(v.value, env)
                    if t != STR:
                        raise Untranslatable(self.fn, v, "non-str interpolation")
                    parts.append(e)
                else:
                    raise Untranslatable(self.fn, v, "f-string piece")
            if not parts:
                return lean_str(""), STR
            return "(" + " ++ ".join(parts) + ")", STR
        saved = (self.counter, self.effects, list(self.hoists) if self.hoists is not None else None)
        try:
            return as_concat()
        except Untranslatable:
            self.counter, self.effects = saved[0], saved[1]
            if saved[2] is not None:
                self.hoists[:] = saved[2]
            return "()", MSG

    def subscript(self, node, env):
        val, t = self.expr(node.value, env)
        if t[0] == "dict":
            if isinstance(node.slice, ast.Slice):
                self.bad(node, "slice of a dict")
            k, tk = self.expr(node.slice, env)
            if tk != STR:
                self.bad(node, "dict key of type %r" % (tk,))
            if t[1] is None:
                self.bad(node, "lookup in a dict of unknown value type")
            v = self.hoist(node, "(pyGetItem %s %s)" % (val, k), "g")
            return v, t[1]
        if t == STR and isinstance(node.slice, ast.Slice):
            s = node.slice
            if (s.upper is None and s.step is None and isinstance(s.lower, ast.UnaryOp)
                    and isinstance(s.lower.op, ast.USub) and isinstance(s.lower.operand, ast.Constant)
                    and s.lower.operand.value == 2):
                return "(last2 %s)" % val, STR            # s[-2:]
            self.bad(node, "only the slice `s[-2:]` is supported")
        return None

    def compare1(self, op, ln, rn, env, node):
        if isinstance(op, (ast.In, ast.NotIn)) and isinstance(rn, ast.Tuple) and rn.elts \
                and all(isinstance(e, ast.Constant) for e in rn.elts):
            # `x in (lit, lit, …)`: membership in a tuple of literals is membership in the list of them
            rn = ast.copy_location(ast.List(elts=list(rn.elts), ctx=ast.Load()), rn)
        if isinstance(op, (ast.In, ast.NotIn)):
            saved = self.counter
            b, tb = self.expr(rn, env)
            if tb[0] == "dict":
                a, ta = self.expr(ln, env)
                if ta != STR:
                    self.bad(node, "`in` on a dict with a key of type %r" % (ta,))
                neg = "!" if isinstance(op, ast.NotIn) else ""
                return "(%s(lookup %s %s).isSome)" % (neg, a, b)
            self.counter = saved
        return tf.FuncTranslator.compare1(self, op, ln, rn, env, node)

    def ifexp(self, node, env):
        def run():
            saved_h, self.hoists = self.hoists, None
            try:
                def k(n):
                    def kk(e):
                        self.hoists = []
                        self.expr(n, e)
                        self.hoists = None
                        return "?"
                    return kk
                return self.cond(node.test, env, k(node.body), k(node.orelse))
            finally:
                self.hoists = saved_h
        _, eff = self.probe(run)
        if not eff:
            return tf.FuncTranslator.ifexp(self, node, env)
        # branch types
        types = []

        def probe_types():
            saved_h, self.hoists = self.hoists, None
            try:
                def k(n):
                    def kk(e):
                        self.hoists = []
                        types.append(self.expr(n, e)[1])
                        self.hoists = None
                        return "?"
                    return kk
                return self.cond(node.test, env, k(node.body), k(node.orelse))
            finally:
                self.hoists = saved_h
        self.probe(probe_types)
        t = types[0]
        for t2 in types[1:]:
            t = self.unify(t, t2)
            if t is None:
                self.bad(node, "the branches of the conditional expression have different types")
        if t == LIT:
            t = NAT

        def branch(n):
            def k(e):
                return self.with_hoists(lambda: self.expr(n, e),
                                        lambda vt: self.ok(self.coerce(vt[0], vt[1], t, n)))
            return k
        saved_h, self.hoists = self.hoists, None
        try:
            body = self.cond(node.test, env, branch(node.body), branch(node.orelse))
        finally:
            self.hoists = saved_h
        v = self.hoist(node, "(%s : Except %s %s)" % (body, self.errt, self.paren_type(t)), "c")
        return v, t

    # -- calls ---------------------------------------------------------------------------------------------
    def call_args(self, node, desc, env, fname):
        """bind positional and keyword arguments to the callee's parameters, coerced, in evaluation order"""
        params = desc["params"]
        if len(node.args) > len(params):
            self.bad(node, "too many arguments for `%s`" % fname)
        given = {}
        order = []
        for (p, t), a in zip(params, node.args):
            given[p] = a
            order.append(p)
        for kw in node.keywords:
            if kw.arg is None or kw.arg in given or kw.arg not in [p for p, _ in params]:
                self.bad(node, "bad keyword argument `%s` for `%s`" % (kw.arg, fname))
            given[kw.arg] = kw.value
            order.append(kw.arg)
        vals = {}
        for p in order:
            pt = dict(params)[p]
            v, vt = self.expr(given[p], env)
            vals[p] = self.coerce_arg(v, vt, pt, given[p])
        for p, pt in params:
            if p not in vals:
                dflt = desc.get("defaults", {}).get(p)
                if dflt is None:
                    self.bad(node, "argument `%s` of `%s` is missing" % (p, fname))
                vals[p] = dflt
        return vals

    def coerce_arg(self, v, vt, pt, node):
        if pt == V1CAL and vt == REC("V1Info"):
            return "(BV.V1Info.calList %s)" % v      # CalInfo = Union[V1CalendarInfo, V1VersionInfo]
        return self.coerce(v, vt, pt, node)

    def call(self, node, env):
        f = node.func
        fname = ast.unparse(f)
        # ---- callees by name
        if fname in CALLEES and not (isinstance(f, ast.Name) and f.id in env):
            desc = CALLEES[fname]
            if desc.get("needs_extern") and desc["needs_extern"] not in (
                    [v[0] for v in self.spec.get("externs", {}).values()] + [n for n, _ in self.spec.get("extra", [])]):
                self.bad(node, "callee `%s` needs the table parameter `%s`" % (fname, desc["needs_extern"]))
            vals = self.call_args(node, desc, env, fname)
            lean = desc["lean"].format(**vals)
            if desc.get("needs_extra") and desc["needs_extra"] not in [n for n, _ in self.spec.get("extra", [])]:
                self.bad(node, "callee `%s` needs the extra parameter `%s`" % (fname, desc["needs_extra"]))
            if desc.get("raises"):
                cerr = desc.get("errt", "V1Err")
                if cerr != self.errt:
                    inj = self.spec.get("inject", {}).get(cerr)
                    if inj is None:
                        self.bad(node, "callee `%s` raises %s, this function is translated with %s" % (fname, cerr, self.errt))
                    lean = "(Except.mapError %s %s)" % (inj, lean)
                return self.hoist(node, lean, "r"), desc["ret"]
            return lean, desc["ret"]
        # ---- record constructors
        if fname in V1_CONSTRUCTORS:
            name = V1_CONSTRUCTORS[fname]
            r = self.record(name)
            fields = r["fields"]
            if len(node.args) + len(node.keywords) != len(fields):
                self.bad(node, "constructor needs all %d fields" % len(fields))
            given = {}
            order = []
            for (f_, path, ft), a in zip(fields, node.args):
                given[f_] = a
                order.append(f_)
            for kw in node.keywords:
                if kw.arg is None or kw.arg in given or kw.arg not in [x for x, _, _ in fields]:
                    self.bad(node, "bad keyword `%s`" % kw.arg)
                given[kw.arg] = kw.value
                order.append(kw.arg)
            vals = {}
            for f_ in order:                                   # Python evaluation order
                ft = [x for x in fields if x[0] == f_][0][2]
                v, vt = self.expr(given[f_], env)
                vals[f_] = self.coerce_slot(v, vt, ft, given[f_])
            items = ["%s := %s" % (path, vals[f_]) for f_, path, ft in fields]
            return "({ " + ", ".join(items) + " } : %s)" % r["lean"], REC(name)
        # ---- builtins
        if fname == "int" and 1 <= len(node.args) <= 2:
            base_ok = True
            if len(node.args) == 2:
                base_ok = isinstance(node.args[1], ast.Constant) and node.args[1].value == 10
            for kw in node.keywords:
                if kw.arg != "base" or not (isinstance(kw.value, ast.Constant) and kw.value.value == 10):
                    base_ok = False
            if not base_ok:
                self.bad(node, "int() with a base other than 10")
            a0 = node.args[0]
            # int(<date>.strftime("%j"), base=10)
            if (isinstance(a0, ast.Call) and isinstance(a0.func, ast.Attribute) and a0.func.attr == "strftime"
                    and len(a0.args) == 1 and not a0.keywords and isinstance(a0.args[0], ast.Constant)):
                d, td = self.expr(a0.func.value, env)
                if td != DATE:
                    self.bad(node, "strftime on a value of type %r" % (td,))
                fn = STRFTIME.get(a0.args[0].value)
                if fn is None:
                    self.bad(node, "strftime format %r is not modelled" % (a0.args[0].value,))
                return "(BV.%s %s.1 %s.2.1 %s.2.2)" % (fn, d, d, d), NAT
            a, ta = self.expr(a0, env)
            if tf.is_intlike(ta):
                return a, ta
            if ta == STR:
                return "(strToNat %s)" % a, NAT
            if ta == OPT(STR):
                return self.hoist(node, "(pyInt %s)" % a, "i"), NAT
            self.bad(node, "int() of a value of type %r" % (ta,))
        if fname == "str" and len(node.args) == 1 and not node.keywords:
            a, ta = self.expr(node.args[0], env)
            if ta == STR:
                return a, STR
            if ta in (NAT, LIT):
                return "(natToStr %s)" % a, STR
            if ta == FVT:
                return "(fvStr %s)" % a, STR
            if ta == OPT(NAT):
                return "(fvStr (optNat %s))" % a, STR
            self.bad(node, "str() of a value of type %r" % (ta,))
        if fname == "isinstance" and len(node.args) == 2 and not node.keywords:
            a, ta = self.expr(node.args[0], env)
            cls = ast.unparse(node.args[1])
            if ta == FVT and cls in ("str", "int"):
                ctor = {"str": "str", "int": "nat"}[cls]
                return "(match %s with | FV.%s _ => true | _ => false)" % (a, ctor), BOOL
            self.bad(node, "isinstance(%r, %s)" % (ta, cls))
        if fname == "len" and len(node.args) == 1 and isinstance(node.args[0], ast.Call) \
                and ast.unparse(node.args[0].func) == "set" and len(node.args[0].args) == 1:
            a, ta = self.expr(node.args[0].args[0], env)
            if ta != STR:
                self.bad(node, "set() of a value of type %r" % (ta,))
            return "(List.eraseDups %s).length" % a, NAT
        if fname == "list" and len(node.args) == 1 and not node.keywords:
            a, ta = self.expr(node.args[0], env)
            if ta[0] == "dict":
                return "(%s.map (fun kv => kv.1))" % a, LIST(STR)      # list(d) = the keys, in order
            if ta[0] == "list":
                return a, ta
            self.bad(node, "list() of a value of type %r" % (ta,))
        # ---- methods
        if isinstance(f, ast.Attribute):
            m = f.attr
            if m == "_asdict" and not node.args and not node.keywords:
                recv, tr = self.expr(f.value, env)
                if tr == REC("V1Info"):
                    r = self.record("V1Info")
                    items = ["(%s, %s)" % (lean_str(fld), self.coerce("%s.%s" % (recv, path), ft, FVT, node))
                             for fld, path, ft in r["fields"]]
                    return "[" + ", ".join(items) + "]", DICT(FVT)
                self.bad(node, "_asdict of a value of type %r" % (tr,))
            if m == "_replace" and not node.args and len(node.keywords) == 1 and node.keywords[0].arg is None:
                # vinfo._replace(**cinfo._asdict())
                recv, tr = self.expr(f.value, env)
                inner = node.keywords[0].value
                if (tr == REC("V1Info") and isinstance(inner, ast.Call) and isinstance(inner.func, ast.Attribute)
                        and inner.func.attr == "_asdict" and not inner.args and not inner.keywords):
                    c, tc = self.expr(inner.func.value, env)
                    if tc == V1CAL:
                        return "(BV.V1Info.setCal %s %s)" % (recv, c), tr
                self.bad(node, "only `vinfo._replace(**cinfo._asdict())` with a V1CalendarInfo")
            if m == "_replace" and not node.args:
                recv, tr = self.expr(f.value, env)
                if tr[0] == "rec":
                    r = self.record(tr[1])
                    items = []
                    for kw in node.keywords:
                        hit = [x for x in r["fields"] if x[0] == kw.arg]
                        if not hit:
                            self.bad(node, "_replace of unknown field `%s`" % kw.arg)
                        v, vt = self.expr(kw.value, env)
                        items.append("%s := %s" % (hit[0][1], self.coerce_slot(v, vt, hit[0][2], kw.value)))
                    return "{ %s with %s }" % (recv, ", ".join(items)), tr
            if m == "get" and len(node.args) in (1, 2) and not node.keywords:
                recv, tr = self.expr(f.value, env)
                if tr[0] == "dict" and tr[1] is not None:
                    k, tk = self.expr(node.args[0], env)
                    if tk != STR:
                        self.bad(node, "dict key of type %r" % (tk,))
                    if len(node.args) == 1:
                        if tr[1][0] == "opt":
                            return "(lookup %s %s).join" % (k, recv), tr[1]
                        return "(lookup %s %s)" % (k, recv), OPT(tr[1])
                    d, td = self.expr(node.args[1], env)
                    u = self.unify(tr[1], td)
                    if u is None:
                        self.bad(node, "dict.get default of type %r for values of type %r" % (td, tr[1]))
                    if u == tr[1]:
                        return "((lookup %s %s).getD %s)" % (k, recv, self.coerce(d, td, u, node)), u
                    self.bad(node, "dict.get default of type %r for values of type %r" % (td, tr[1]))
            if m == "zfill" and len(node.args) == 1 and not node.keywords:
                recv, tr = self.expr(f.value, env)
                n, tn = self.expr(node.args[0], env)
                if tr == STR and tf.is_intlike(tn):
                    return "(zfill %s %s)" % (self.coerce(n, tn, NAT, node), recv), STR
                self.bad(node, "zfill on %r with %r" % (tr, tn))
            if m == "replace" and len(node.args) == 2 and not node.keywords:
                recv, tr = self.expr(f.value, env)
                if tr == STR:
                    a, ta = self.expr(node.args[0], env)
                    b, tb = self.expr(node.args[1], env)
                    if ta != STR or tb != STR:
                        self.bad(node, "str.replace with non-str arguments")
                    if isinstance(node.args[0], ast.Constant) and node.args[0].value != "":
                        return "(replaceAll %s %s %s)" % (a, b, recv), STR
                    return "(pyReplace %s %s %s)" % (a, b, recv), STR
            if m == "format" and not node.args and len(node.keywords) == 1 and node.keywords[0].arg is None:
                recv, tr = self.expr(f.value, env)
                kw, tkw = self.expr(node.keywords[0].value, env)
                if tr == STR and tkw == DICT(FVT):
                    return self.hoist(node, "(BV.v1PyFormat %s %s)" % (kw, recv), "s"), STR
                self.bad(node, "str.format(**kwargs) needs a str and a dict of str|int|None")
            if m == "match" and len(node.args) == 1 and not node.keywords:
                recv, tr = self.expr(f.value, env)
                if tr == RE:
                    s, ts = self.expr(node.args[0], env)
                    if ts != STR:
                        self.bad(node, "regexp.match on a value of type %r" % (ts,))
                    return "(BV.reMatch %s %s)" % (recv, s), OPT(MATCH(s, recv))
            if m == "group" and not node.args and not node.keywords:
                recv, tr = self.expr(f.value, env)
                if tr[0] == "match":
                    return "(pyGroup0 %s %s)" % (tr[1], recv), STR
            if m == "groupdict" and not node.args and not node.keywords:
                recv, tr = self.expr(f.value, env)
                if tr[0] == "match":
                    return "(BV.groupdict %s %s)" % (tr[2], recv), DICT(OPT(STR))
        if node.keywords and fname not in tf.CONSTRUCTORS and not (isinstance(f, ast.Attribute) and f.attr == "_replace"):
            self.bad(node, "call of `%s` with keyword arguments is not in the whitelist" % fname)
        return tf.FuncTranslator.call(self, node, env)

    # -- truthiness ------------------------------------------------------------------------------------------
    def truthy_of(self, lean, t, node):
        if t[0] == "dict":
            return "(!%s.isEmpty)" % lean
        if t == FVT:
            return "(match %s with | FV.none => false | FV.nat n => n != 0 | FV.str s => !s.isEmpty)" % lean
        return tf.FuncTranslator.truthy_of(self, lean, t, node)

    def cond(self, test, env, tk, ek, as_bool=False, top=True):
        # `isinstance(x, str)` on a variable of the union type: narrowing by a match
        if (isinstance(test, ast.Call) and ast.unparse(test.func) == "isinstance" and len(test.args) == 2
                and isinstance(test.args[0], ast.Name) and test.args[0].id in env
                and env[test.args[0].id].type == FVT and not as_bool):
            cls = ast.unparse(test.args[1])
            if cls in ("str", "int"):
                var = env[test.args[0].id]
                nv = self.fresh(test.args[0].id)
                env2 = dict(env)
                env2[test.args[0].id] = Var(nv, STR if cls == "str" else NAT, narrowed_from=var)
                ctor = "str" if cls == "str" else "nat"
                return "(match %s with\n  | FV.%s %s => %s\n  | _ => %s)" % (
                    var.lean, ctor, nv, _arm(tk(env2)), _arm(ek(env)))
        return tf.FuncTranslator.cond(self, test, env, tk, ek, as_bool=as_bool, top=top)

    # -- statements -----------------------------------------------------------------------------------------
    def ret(self, node, env, at):
        rt = self.spec["ret"]

        def compute():
            if node is None:
                return "none", NONE
            return self.expr(node, env)

        def cont(vt):
            v, t = vt
            if rt == UNIT and t == NONE:
                out = "()"
            else:
                out = self.coerce(v, t, rt, at)
            return self.ok(out) if self.monadic else out
        return self.with_hoists(compute, cont)

    def assign(self, name, compute, env, kr, at):
        def cont(vt):
            v, t = vt
            env2 = dict(env)
            if t == NONE:                       # `x = None`: no `let` (its type could not be inferred)
                env2[name] = Var("none", NONE)
                return kr(env2)
            ln = lean_ident(name)
            env2[name] = Var(ln, t)
            return "let %s := %s;\n%s" % (ln, v, kr(env2))
        return self.with_hoists(compute, cont)

    def exc_ctor(self, node):
        name = ast.unparse(node.func) if isinstance(node, ast.Call) else ast.unparse(node)
        if name not in EXC:
            self.bad(node, "exception class `%s` has no V1Err constructor" % name)
        return EXC[name]

    def always_exits(self, stmts):
        if not stmts:
            return False
        last = stmts[-1]
        if isinstance(last, (ast.Return, ast.Raise)):
            return True
        if isinstance(last, ast.If):
            return self.always_exits(last.body) and self.always_exits(last.orelse)
        if isinstance(last, ast.Try):
            return self.always_exits(last.body) and all(self.always_exits(h.body) for h in last.handlers)
        return False

    def block(self, stmts, env, k):
        if not stmts:
            return k(env)
        st, rest = stmts[0], stmts[1:]

        def kr(e):
            return self.block(rest, e, k)
        if self.is_dropped(st):
            return kr(env)
        # bare annotation `x: T`
        if isinstance(st, ast.AnnAssign) and st.value is None:
            return kr(env)
        if isinstance(st, ast.Raise):
            if st.exc is None:
                self.bad(st, "bare `raise`")
            return self.err(self.exc_ctor(st.exc))
        if isinstance(st, ast.Assert):
            # statically true (`x is not None` on a non-Optional value)?
            t = st.test
            if (isinstance(t, ast.Compare) and len(t.ops) == 1 and isinstance(t.ops[0], ast.IsNot)
                    and isinstance(t.comparators[0], ast.Constant) and t.comparators[0].value is None):
                _, tt = self.probe(lambda: self.expr(t.left, env))[0]
                if tt[0] not in ("opt", "none"):
                    return kr(env)
            c = self.truthy(t, env)
            self.effects += 1
            return "(Except.bind (pyAssert %s) (fun _ =>\n%s))" % (c, indent(kr(env), 2))
        # d[k] = v
        if (isinstance(st, ast.Assign) and len(st.targets) == 1 and isinstance(st.targets[0], ast.Subscript)
                and isinstance(st.targets[0].value, ast.Name)):
            tgt = st.targets[0]
            name = tgt.value.id
            if name not in env or env[name].type[0] != "dict":
                self.bad(st, "`x[k] = v` on something that is not a dict variable")
            d = env[name]

            def compute():
                v, tv = self.expr(st.value, env)          # Python evaluates the value first, then the key
                kx, tk_ = self.expr(tgt.slice, env)
                if tk_ != STR:
                    self.bad(st, "dict key of type %r" % (tk_,))
                vt = d.type[1] if d.type[1] is not None else tv
                return "((%s, %s) :: %s)" % (kx, self.coerce(v, tv, vt, st), d.lean), DICT(vt)
            return self.assign(name, compute, env, kr, st)
        # a call evaluated for its exceptions only
        if isinstance(st, ast.Expr) and isinstance(st.value, ast.Call) and self.as_assignment(st, env) is None:
            return self.with_hoists(lambda: self.expr(st.value, env), lambda vt: kr(env))
        if isinstance(st, ast.Try):
            return self.try_stmt(st, rest, env, k)
        return tf.FuncTranslator.block(self, stmts, env, k)

    def try_stmt(self, st, rest, env, k):
        def kr(e):
            return self.block(rest, e, k)
        if st.finalbody or len(st.handlers) != 1:
            self.bad(st, "only `try: ... except X [as e]: ... [else: ...]` with one handler")
        if st.orelse:
            # the `else` block runs after a body that did not raise, OUTSIDE the handler's protection:
            # it is the beginning of the continuation of the `.ok` arm (form A below)
            rest = list(st.orelse) + list(rest)
        if not self.monadic:
            self.bad(st, "try/except in a function translated as pure")
        h = st.handlers[0]
        if h.type is None:
            self.bad(st, "bare `except:`")
        ctor = EXC.get(ast.unparse(h.type))
        if ctor is None:
            self.bad(h, "exception class `%s` has no V1Err constructor" % ast.unparse(h.type))
        henv = dict(env)
        if h.name:
            henv[h.name] = Var("()", MSG)
        self.effects += 1
        body = [s for s in st.body if not self.is_dropped(s)]
        # form A: `try: x = e` -- the handler must leave the function
        a = self.as_assignment(body[0], env) if len(body) == 1 else None
        if (a is None and len(body) == 1 and isinstance(body[0], ast.Expr) and isinstance(body[0].value, ast.Call)):
            call = body[0].value                       # `try: f(x)`: evaluated for its exceptions only
            a = ("_", lambda e: self.expr(call, e))
        if a is not None and isinstance(body[0], (ast.Assign, ast.AnnAssign, ast.Expr)):
            if not self.always_exits(h.body):
                self.bad(st, "the handler of `try: x = ...` must end in return/raise")
            name, compute = a
            e = self.with_hoists(lambda: compute(env), lambda vt: self.ok(vt[0]))
            _, t = self.probe(lambda: self._type_of(compute, env))[0]
            handler = self.block(list(h.body), henv, kr)
            ln = lean_ident(name)
            env2 = dict(env)
            if name != "_":
                env2[name] = Var(ln, t)
            return ("(match %s with\n  | Except.error %s.%s => %s\n  | Except.error e_ => (Except.error e_)\n  | Except.ok %s => %s)"
                    % (e, self.errt, ctor, _arm(handler), ln, _arm(kr(env2))))
        # form R: the body always returns / raises
        if self.always_exits(body) and not st.orelse:
            b = self.block(body, env, lambda e: self.bad(st, "unreachable"))
            handler = self.block(list(h.body), henv, kr)
            return ("(match (%s : Except %s %s) with\n  | Except.error %s.%s => %s\n  | r_ => r_)"
                    % (b, self.errt, self.paren_type(self.spec["ret"]), self.errt, ctor, _arm(handler)))
        self.bad(st, "try body must be one assignment, or end in return/raise on every path")

    def _type_of(self, compute, env):
        saved = self.hoists
        self.hoists = []
        try:
            return compute(env)
        finally:
            self.hoists = saved

    def if_stmt(self, st, rest, env, k):
        def kr(e):
            return self.block(rest, e, k)
        if not self.contains_exit(st.body) and not self.contains_exit(st.orelse):
            probes = []

            def pk(e):
                probes.append(e)
                return "?"
            _, eff = self.probe(lambda: self.cond(st.test, env, lambda e: self.block(st.body, e, pk),
                                                  lambda e: self.block(st.orelse, e, pk)))
            if eff:
                names = self.changed_vars(env, probes)
                names = [n for n in names if all(n in pe for pe in probes)]
                jt = {}
                for n in names:
                    t = probes[0][n].type
                    for pe in probes[1:]:
                        t = self.unify(t, pe[n].type) if t is not None else None
                    if t is None or t[0] == "none":
                        self.bad(st, "the branches give `%s` incompatible types" % n)
                    if t == LIT:
                        t = NAT
                    jt[n] = t

                def tup(e):
                    vals = [self.coerce(e[n].lean, e[n].type, jt[n], st) for n in names]
                    if not vals:
                        return self.ok("()")
                    return self.ok(vals[0] if len(vals) == 1 else "(" + ", ".join(vals) + ")")
                body = self.cond(st.test, env, lambda e: self.block(st.body, e, tup),
                                 lambda e: self.block(st.orelse, e, tup))
                env2 = dict(env)
                for n in names:
                    env2[n] = Var(lean_ident(n), jt[n])
                if not names:
                    pat, ty = "_", "Unit"
                elif len(names) == 1:
                    pat, ty = lean_ident(names[0]), self.paren_type(jt[names[0]])
                else:
                    pat = "(" + ", ".join(lean_ident(n) for n in names) + ")"
                    ty = "(" + " × ".join(self.paren_type(jt[n]) for n in names) + ")"
                return "(Except.bind (%s : Except %s %s) (fun %s =>\n%s))" % (
                    body, self.errt, ty, pat, indent(kr(env2), 2))
        return tf.FuncTranslator.if_stmt(self, st, rest, env, k)

    # -- loops ----------------------------------------------------------------------------------------------------
    def iterable2(self, node, env):
        """-> (lean list, element type)"""
        if (isinstance(node, ast.Call) and isinstance(node.func, ast.Attribute) and not node.args
                and not node.keywords and node.func.attr in ("items", "keys")):
            d, td = self.expr(node.func.value, env)
            if td[0] == "dict" and td[1] is not None:
                if node.func.attr == "items":
                    return d, TUP(STR, td[1])
                return "(%s.map (fun kv => kv.1))" % d, STR
            self.bad(node, ".%s() of a value of type %r" % (node.func.attr, td))
        xs, t = self.expr(node, env)
        if t[0] == "dict" and t[1] is not None:
            return "(%s.map (fun kv => kv.1))" % xs, STR
        if t[0] != "list" or t[1] is None:
            self.bad(node, "loop over a value of type %r" % (t,))
        return xs, t[1]

    def for_stmt(self, st, rest, env, k):
        simple = isinstance(st.target, ast.Name) and ast.unparse(st.iter) in tf.FIELD_TUPLES
        if simple:
            return tf.FuncTranslator.for_stmt(self, st, rest, env, k)
        if st.orelse:
            self.bad(st, "`for ... else`")
        xs, et = self.iterable2(st.iter, env)
        env_in = dict(env)
        if isinstance(st.target, ast.Name):
            x = lean_ident(st.target.id)
            env_in[st.target.id] = Var(x, et)
        elif (isinstance(st.target, ast.Tuple) and all(isinstance(e, ast.Name) for e in st.target.elts)
              and et[0] == "tuple" and len(et[1]) == len(st.target.elts)):
            x = self.fresh("it")
            n = len(et[1])
            for i, e in enumerate(st.target.elts):
                env_in[e.id] = Var("%s%s" % (x, ".2" * i + (".1" if i < n - 1 else "")), et[1][i])
        else:
            self.bad(st, "loop target must be a name or a tuple of names matching the element type")
        body = [s for s in st.body if not self.is_dropped(s)]
        last = body[-1] if body else None
        if (isinstance(last, ast.If) and not last.orelse and len(last.body) == 1
                and isinstance(last.body[0], ast.Return) and isinstance(st.target, ast.Name)):
            return tf.FuncTranslator.for_stmt(self, st, rest, env, k)       # the searching idiom
        # the FLAG idiom: `flag = <bool>` before; `for x in xs: if c: flag = True|False; break`
        #   -> flag := flag || any(c)   resp.   flag && !any(c)      (the search stops at the first hit, c is pure)
        if len(body) == 1 and isinstance(last, ast.If) and not last.orelse:
            ib = [s for s in last.body if not self.is_dropped(s)]
            if (len(ib) == 2 and isinstance(ib[1], ast.Break) and isinstance(ib[0], ast.Assign)
                    and len(ib[0].targets) == 1 and isinstance(ib[0].targets[0], ast.Name)
                    and isinstance(ib[0].value, ast.Constant) and isinstance(ib[0].value.value, bool)
                    and ib[0].targets[0].id in env and env[ib[0].targets[0].id].type == BOOL):
                flag = ib[0].targets[0].id
                saved_h, self.hoists = self.hoists, None          # the test must be pure
                try:
                    c = self.cond(last.test, env_in, lambda _: "true", lambda _: "false", as_bool=True)
                finally:
                    self.hoists = saved_h
                anyx = "(List.any %s (fun %s => %s))" % (xs, x, c)
                if ib[0].value.value:
                    val = "(%s || %s)" % (env[flag].lean, anyx)
                else:
                    val = "(%s && !%s)" % (env[flag].lean, anyx)
                env2 = dict(env)
                ln = lean_ident(flag)
                env2[flag] = Var(ln, BOOL)
                return "let %s := %s;\n%s" % (ln, val, self.block(rest, env2, k))
        if self.contains_exit(body, allow_continue=True):
            self.bad(st, "a loop body with return/raise/break")

        def run_body(e, kk):
            self.loop_k.append(kk)
            try:
                return self.block(body, e, kk)
            finally:
                self.loop_k.pop()
        probes = []

        def pk(e):
            probes.append(e)
            return "?"
        _, eff = self.probe(lambda: run_body(env_in, pk))
        names = [n for n in self.changed_vars(env_in, probes) if n in env]
        if not names and not eff:
            return self.block(rest, env, k)
        st_types = {}
        for n in names:
            t = env[n].type
            for pe in probes:
                t = self.unify(t, pe[n].type) if t is not None else None
            if t is None or (t[0] in ("list", "dict") and t[1] is None):
                self.bad(st, "cannot type the loop-carried variable `%s`" % n)
            st_types[n] = t
        env_body = dict(env_in)
        for n in names:
            env_body[n] = Var(lean_ident(n), st_types[n])
        probes2 = []
        self.probe(lambda: run_body(env_body, lambda e: (probes2.append(e), "?")[1]))
        for pe in probes2:
            for n in names:
                if self.unify(pe[n].type, st_types[n]) != st_types[n]:
                    self.bad(st, "the type of `%s` changes from iteration to iteration" % n)

        def tup(e):
            vals = [self.coerce(e[n].lean, e[n].type, st_types[n], st) for n in names]
            v = "()" if not vals else (vals[0] if len(vals) == 1 else "(" + ", ".join(vals) + ")")
            return self.ok(v) if eff else v
        step = run_body(env_body, tup)
        tys = [self.paren_type(st_types[n]) for n in names]
        sty = "Unit" if not tys else (tys[0] if len(tys) == 1 else " × ".join(tys))
        pat = "_" if not names else (lean_ident(names[0]) if len(names) == 1 else
                                     "(" + ", ".join(lean_ident(n) for n in names) + ")")

        def tup0(e):
            vals = [self.coerce(e[n].lean, e[n].type, st_types[n], st) for n in names]
            return "()" if not vals else (vals[0] if len(vals) == 1 else "(" + ", ".join(vals) + ")")
        init = tup0(env)
        fn = "(fun (st : %s) (%s : %s) =>\n    (match st with\n      | %s =>\n%s))" % (
            sty, x, self.lean_type(et), pat, indent(step, 8))
        env2 = dict(env)
        for n in names:
            env2[n] = Var(lean_ident(n), st_types[n])
        if eff:
            fold = "(List.foldlM (m := Except %s) %s\n  %s\n  %s)" % (self.errt, fn, init, xs)
            return "(Except.bind %s (fun %s =>\n%s))" % (fold, pat, indent(self.block(rest, env2, k), 2))
        fold = "(List.foldl %s\n  %s\n  %s)" % (fn, init, xs)
        if len(names) == 1:
            return "let %s := %s;\n%s" % (pat, fold, self.block(rest, env2, k))
        return "(match %s with\n  | %s => %s)" % (fold, pat, _arm(self.block(rest, env2, k)))

    # -- the whole function ----------------------------------------------------------------------------------------
    def translate(self):
        spec = self.spec
        src, node = self.src.find(spec["file"], ast.FunctionDef, spec["func"])
        if node is None:
            raise Untranslatable(self.fn, None, "function not found in %s" % spec["file"])
        self.source_text = ast.get_source_segment(src, node)
        a = node.args
        if a.vararg or a.kwarg or a.posonlyargs:
            self.bad(node, "*args / **kwargs / positional-only parameters")
        for d in node.decorator_list:
            if ast.unparse(d) not in ("utils.memo",):          # memoisation of a pure function
                self.bad(d, "decorator `%s`" % ast.unparse(d))
        pynames = [x.arg for x in a.args] + [x.arg for x in a.kwonlyargs]
        if pynames != [p for p, _ in spec["params"]]:
            self.bad(node, "parameters are %s, the signature table expects %s" % (pynames, [p for p, _ in spec["params"]]))
        for d in list(a.defaults) + [d for d in a.kw_defaults if d is not None]:
            if not isinstance(d, ast.Constant):
                self.bad(node, "only constant parameter defaults")
        env = {}
        params = []
        for p, t in spec["params"]:
            if t[0] == "rec":
                self.record(t[1])
            env[p] = Var(lean_ident(p), t)
            params.append("(%s : %s)" % (lean_ident(p), self.lean_type(t)))
        for key, (ln, t) in spec.get("externs", {}).items():
            params.append("(%s : %s)" % (ln, self.lean_type(t)))
        for ln, t in spec.get("extra", []):
            params.append("(%s : %s)" % (ln, self.lean_type(t)))
        rt = self.paren_type(spec["ret"])
        if self.monadic:
            rt = "Except %s %s" % (self.errt, rt)

        def fall_off(e):
            return self.ret(None, e, node)
        body = self.block(list(node.body), env, fall_off)
        for key, (ln, _) in spec.get("externs", {}).items():
            if ln not in body:
                self.bad(node, "the expression `%s` (abstracted as parameter `%s`) does not occur" % (key, ln))
        head = "def %s %s : %s :=" % (spec["name"], " ".join(params), rt)
        return [], head + "\n" + indent(body, 2) + "\n"


# ----------------------------------------------------------------------------------
# the signature table
# ----------------------------------------------------------------------------------
FVALS = DICT(OPT(STR))
M = "BumpverVerif.Gen.F_v1Prim"

FUNCS = [
    # 1. _parse_field_values: the ORDER of the derivation steps (doy -> month/dom -> doy/weeks -> quarter)
    dict(name="v1ParseFieldValues", file="v1version.py", func="_parse_field_values",
         params=[("field_values", FVALS)], ret=REC("V1Info"), monadic=True, imports=[M]),
    # 2. _parse_version_info / parse_version_info / is_valid
    dict(name="v1ParseGroups", file="v1version.py", func="_parse_version_info",
         params=[("pattern_groups", FVALS)], ret=REC("V1Info"), monadic=True, imports=[M]),
    dict(name="v1ParseVersionInfo", file="v1version.py", func="parse_version_info",
         params=[("version_str", STR), ("raw_pattern", STR)], ret=REC("V1Info"), monadic=True, imports=[M]),
    dict(name="v1IsValid", file="v1version.py", func="is_valid",
         params=[("version_str", STR), ("raw_pattern", STR)], ret=BOOL, monadic=True, imports=[M]),
    # 3. incr (keyword-only flags; `version.TODAY` is the extra parameter `today`)
    dict(name="v1Incr", file="v1version.py", func="incr",
         params=[("old_version", STR), ("raw_pattern", STR), ("major", BOOL), ("minor", BOOL), ("patch", BOOL),
                 ("tag", OPT(STR)), ("tag_num", BOOL), ("pin_date", BOOL), ("maybe_date", OPT(DATE))],
         externs={"version.TODAY": ("today", DATE)},
         ret=OPT(STR), monadic=True, imports=[M]),
    # 4. format_version: kwargs dict, derived release / pep440_tag / yy / yyyy / BID and padded ids, `str.format`
    dict(name="v1FormatVersion", file="v1version.py", func="format_version",
         params=[("vinfo", REC("V1Info")), ("raw_pattern", STR)], ret=STR, monadic=True, imports=[M]),
    # 5. v1patterns: `PART_PATTERNS` (mutated at import time) and `RE_PATTERN_ESCAPES` are table PARAMETERS
    dict(name="v1ReplacePatternParts", file="v1patterns.py", func="_replace_pattern_parts",
         params=[("pattern", STR)], externs={"PART_PATTERNS": ("parts", TABLE)}, ret=STR, imports=[M]),
    dict(name="v1CompilePatternRe", file="v1patterns.py", func="_compile_pattern_re",
         params=[("normalized_pattern", STR)], externs={"RE_PATTERN_ESCAPES": ("escapes", LIST(TUP(STR, STR)))},
         extra=[("parts", TABLE)], ret=RE, monadic=True, imports=[M]),
    dict(name="v1NormalizedPattern", file="v1patterns.py", func="_normalized_pattern",
         params=[("version_pattern", STR), ("raw_pattern", STR)], ret=STR, imports=[M]),
    dict(name="v1CompilePattern", file="v1patterns.py", func="compile_pattern",
         params=[("version_pattern", STR), ("raw_pattern", OPT(STR))], ret=REC("V1Pattern"), monadic=True, imports=[M]),
    # 6. cli.incr_dispatch: which engine handles a pattern
    dict(name="v1IncrDispatch", file="cli.py", func="incr_dispatch",
         params=[("old_version", STR), ("raw_pattern", STR), ("major", BOOL), ("minor", BOOL), ("patch", BOOL),
                 ("tag", OPT(STR)), ("tag_num", BOOL), ("pin_increments", BOOL), ("pin_date", BOOL),
                 ("maybe_date", OPT(DATE))],
         externs={"_VERBOSE": ("verbose", NAT)}, extra=[("today", DATE)],
         err="DErr", inject={"V1Err": "DErr.v1", "PErr": "DErr.v2"},
         ret=OPT(STR), monadic=True, imports=[M]),
]


def header(spec, text):
    return [
        "/- GENERATED by harness/translate_v1.py from the Python AST. Do not edit.",
        "   source   : src/bumpver/%s" % spec["file"],
        "   function : %s" % spec["func"],
        "   sha256   : %s  (of the function's source text) -/" % (sha256(text) if text else "(function not found)"),
    ]


def render(spec, sources):
    fname = "F_%s.lean" % spec["name"]
    tr = V1Translator(spec, sources)
    where = "src/bumpver/%s" % spec["file"]
    try:
        decls, body = tr.translate()
    except Exception as ex:  # Untranslatable, or unreadable source / internal error: never a silent success
        text = getattr(tr, "source_text", None)
        msg = str(ex) if isinstance(ex, Untranslatable) else "the source could not be read/parsed/translated: %s: %s" % (
            type(ex).__name__, ex)
        lines = [
            "/- GENERATED by harness/translate_v1.py. Do not edit.",
            "   source   : %s" % where,
            "   function : %s" % spec["func"],
            "   sha256   : %s" % (sha256(text) if text else "(function not found)"),
            "",
            "   UNTRANSLATABLE: %s" % msg.replace("-/", "- /"),
            "   (no definition is generated; BV.tie_%s cannot compile until this is resolved) -/" % spec["name"],
            "",
        ]
        return fname, "\n".join(lines), ex
    lines = header(spec, tr.source_text)
    for imp in spec["imports"]:
        lines.append("import %s" % imp)
    lines.append("set_option linter.unusedVariables false")
    lines.append("namespace BV.GenV1")
    lines.append("")
    lines.append("/-- `%s.%s` -/" % (spec["file"][:-3], spec["func"]))
    lines.append(body)
    lines.append("end BV.GenV1")
    lines.append("")
    return fname, "\n".join(lines), None


def generate(report=None):
    """{filename: content} for lean/BumpverVerif/Gen/ (same contract as translate_funcs.generate)"""
    sources = tf.Sources()
    out = {"F_v1Prim.lean": PRELUDE}
    for spec in FUNCS:
        fname, content, err = render(spec, sources)
        out[fname] = content
        if report is not None:
            report.append((spec["func"], fname, err))
    return out


def main():
    rep = []
    files = generate(rep)
    gen = os.path.join(os.path.dirname(HERE), "lean", "BumpverVerif", "Gen")
    only = [a for a in sys.argv[1:] if not a.startswith("--")]
    if "--write" in sys.argv:
        for name, content in files.items():
            path = os.path.join(gen, name)
            old = open(path, encoding="utf-8").read() if os.path.exists(path) else None
            if old != content:
                with open(path, "w", encoding="utf-8") as f:
                    f.write(content)
                print("wrote", name)
    for func, fname, err in rep:
        print("%-28s %-32s %s" % (func, fname, "ok" if err is None else "UNTRANSLATABLE: %s" % err))
    if "--show" in sys.argv:
        for name, content in files.items():
            if only and not any(o in name for o in only):
                continue
            print("=" * 20, name)
            print(content)
    return 0


if __name__ == "__main__":
    sys.exit(main())
