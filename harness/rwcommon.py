"""Shared helpers of the rewrite-phase properties C03, C04, C06, C13."""
import os, json
import impl_adapter as impl
import projgen, sandbox


def gen_ok_project(rng, **kw):
    for _ in range(50):
        pr = projgen.gen_project(rng, **kw)
        if projgen.fixture_ok(pr):
            return pr
    return pr


def setup(pr, extra_cfg="", vcs=None):
    p = sandbox.Project("rw")
    for name, text in pr["files"].items():
        p.write_bytes(name, text.encode("utf-8"))
    p.write_text("bumpver.toml", projgen.toml_config(pr, extra_cfg))
    p.write_bytes("unrelated.bin", b"\x00\xff binary \r\n not utf8 \xfe")
    p.write_text("notes/other.txt", "mentions %s but is not configured\n" % pr["old"])
    if vcs:
        p.add_fake_vcs(vcs)
    return p


def expected_snapshot(pr, before):
    """the independent expectation after a successful update: the layout materialised with the new state"""
    exp = dict(before)
    for name, text in pr["expected_files"].items():
        exp[name] = text.encode("utf-8")
    exp["bumpver.toml"] = before["bumpver.toml"].replace(
        ('current_version = %s' % json.dumps(pr["old"], ensure_ascii=False)).encode("utf-8"),
        ('current_version = %s' % json.dumps(pr["new"], ensure_ascii=False)).encode("utf-8"), 1)
    if pr.get("variants") and pr.get("glob_self"):
        # the [project] table's own version line, covered by the "*.toml" glob entry
        exp["bumpver.toml"] = exp["bumpver.toml"].replace(
            ('[project]\nversion = %s' % json.dumps(pr["old"], ensure_ascii=False)).encode("utf-8"),
            ('[project]\nversion = %s' % json.dumps(pr["new"], ensure_ascii=False)).encode("utf-8"), 1)
    return exp


def diff_files(a, b):
    out = []
    for k in sorted(set(a) | set(b)):
        if a.get(k) != b.get(k):
            out.append(k)
    return out


def update_args(pr, rng=None, set_version=False):
    if set_version:
        return ["update", "--no-fetch", "--set-version", pr["new"]]
    return ["update", "--no-fetch"] + projgen.cli_flags(pr)


def corr_ops(pr):
    """model/implementation correspondence ops for one project: per-file content rewrite"""
    ops = []
    for path, pairs in pr["file_patterns"]:
        ops.append({"op": "rewrite_content", "patterns": pairs, "vinfo": pr["new_vinfo"], "content": pr["files"][path]})
    return ops


def impl_rewrite_content(op):
    return impl.rewrite_content(op["patterns"], op["vinfo"], op["content"])
