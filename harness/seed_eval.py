#!/usr/bin/env python3
"""Evaluate one seeded change: confirm it (suite unchanged, demo fails with / passes without the change)
in a scratch worktree, then run the registered checks against /repo with the change applied, undo, and
record everything under /verif/seeded/<name>/.
usage: seed_eval.py <out-dir with patch.diff demo.py notes.md> <property id> <name> [extra check ids…]"""
import os, sys, json, subprocess, shutil, time

out, pid, name = sys.argv[1], sys.argv[2], sys.argv[3]
extra = sys.argv[4:]
VERIF = "/verif"
dest = os.path.join(VERIF, "seeded", name)
os.makedirs(dest, exist_ok=True)
for f in ("patch.diff", "demo.py", "notes.md"):
    if os.path.abspath(out) != os.path.abspath(dest):
        shutil.copy(os.path.join(out, f), os.path.join(dest, f))
patch = os.path.join(dest, "patch.diff")


def sh(cmd, **kw):
    return subprocess.run(cmd, shell=True, capture_output=True, text=True, **kw)


scratch = "/tmp/seedver-" + name
sh("git -C /repo worktree remove --force %s" % scratch)
assert sh("git -C /repo worktree add -q %s HEAD" % scratch).returncode == 0
meta = {"property": pid, "name": name}
try:
    env = dict(os.environ, PYTHONPATH=scratch + "/src")
    r0 = subprocess.run(["/venv/bin/python", os.path.join(dest, "demo.py")], capture_output=True, text=True, env=env, cwd="/tmp", timeout=600)
    meta["demo_without_change"] = {"exit": r0.returncode, "tail": (r0.stdout + r0.stderr)[-300:]}
    a = sh("git -C %s apply %s" % (scratch, patch))
    meta["patch_applies"] = a.returncode == 0
    r1 = subprocess.run(["/venv/bin/python", os.path.join(dest, "demo.py")], capture_output=True, text=True, env=env, cwd="/tmp", timeout=600)
    meta["demo_with_change"] = {"exit": r1.returncode, "tail": (r1.stdout + r1.stderr)[-400:]}
    s = subprocess.run("cd %s && /venv/bin/python -m pytest -q -p no:cacheprovider --timeout=900 --continue-on-collection-errors 2>&1 | tail -1" % scratch,
                       shell=True, capture_output=True, text=True, env=env)
    meta["suite_with_change"] = s.stdout.strip()
finally:
    sh("git -C /repo worktree remove --force %s" % scratch)
meta["confirmed"] = (meta["demo_without_change"]["exit"] == 0 and meta.get("demo_with_change", {}).get("exit") not in (0, None)
                     and "500 passed" in meta.get("suite_with_change", "") and "25 failed" in meta.get("suite_with_change", ""))
# run the checks with the change applied
ISOLATED = os.environ.get("SEED_EVAL_ISOLATED") == "1"
results = {}
if ISOLATED:
    # a private copy of /verif (with its Lean build) checks a scratch worktree that carries the change: nothing in /repo
    # or /verif is touched, so several evaluations (and other work) can run side by side
    vcopy = "/tmp/verif-eval-" + name
    wt = "/tmp/seedrun-" + name
    sh("rm -rf %s; git -C /repo worktree remove --force %s" % (vcopy, wt))
    assert sh("git -C /repo worktree add -q %s HEAD" % wt).returncode == 0
    assert sh("git -C %s apply %s" % (wt, patch)).returncode == 0
    assert sh("rsync -a --exclude .git --exclude replays --exclude evidence %s/ %s/ && mkdir -p %s/replays %s/evidence" % (VERIF, vcopy, vcopy, vcopy)).returncode == 0
    try:
        for cid in [pid] + extra:
            t0 = time.time()
            r = subprocess.run(["./check", cid, "--tier", "quick"], cwd=vcopy, capture_output=True, text=True, timeout=3600,
                               env=dict(os.environ, VERIF_REPO=wt))
            viol = [l for l in r.stdout.splitlines() if l.startswith("VIOLATION")]
            results[cid] = {"exit": r.returncode, "violations": viol[:3], "stderr_tail": r.stderr[-700:], "wall_s": round(time.time() - t0, 1)}
            if viol:
                rp = viol[0].split("replay=")[1].split()[0]
                try:
                    results[cid]["first_replay"] = open(os.path.join(vcopy, rp)).read()[:1500]
                except OSError:
                    pass
    finally:
        sh("rm -rf %s; git -C /repo worktree remove --force %s" % (vcopy, wt))
else:
    assert sh("git -C /repo status --porcelain").stdout.strip() == "", "/repo not clean"
    assert sh("git -C /repo apply %s" % patch).returncode == 0
    try:
        for cid in [pid] + extra:
            t0 = time.time()
            r = subprocess.run(["./check", cid, "--tier", "quick"], cwd=VERIF, capture_output=True, text=True, timeout=3600)
            viol = [l for l in r.stdout.splitlines() if l.startswith("VIOLATION")]
            results[cid] = {"exit": r.returncode, "violations": viol[:3], "stderr_tail": r.stderr[-700:], "wall_s": round(time.time() - t0, 1)}
    finally:
        sh("git -C /repo checkout -- .")
        # regenerate tables / rebuild for the unchanged tree
        subprocess.run(["/venv/bin/python", os.path.join(VERIF, "harness", "translate.py")], capture_output=True)
meta["checks_with_change"] = results
meta["caught_by"] = [c for c, r in results.items() if r["exit"] == 1 and r["violations"]]
meta["what_ran"] = ("harness/seed_eval.py: demo with/without the change and the pinned suite in a scratch worktree; then `./check <id> --tier quick` "
                    + ("of a private copy of /verif against a scratch worktree carrying the patch (VERIF_REPO), both removed afterwards" if ISOLATED
                       else "against /repo with the patch applied, reverted afterwards"))
json.dump(meta, open(os.path.join(dest, "meta.json"), "w"), indent=1)
print(json.dumps({k: meta[k] for k in ("confirmed", "caught_by", "suite_with_change")}, indent=1))
for c, r in results.items():
    print(c, r["exit"], r["violations"][:1], r["stderr_tail"].strip().splitlines()[-3:-1])
