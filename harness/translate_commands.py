#!/venv/bin/python
"""Python -> Lean translator for the TOP-LEVEL GLUE of the two commands, cli.py `test(...)` and `update(...)`,
for the decision functions of cli.py that call `vcs.get_tags` (`_is_valid_version`,
`get_latest_vcs_version_tag`, `_update_cfg_from_vcs`) and for `_normalize_set_version`.

For every entry of the signature table `LFUNCS` the Python source is read with `ast` (never imported) from
$VERIF_REPO/src/bumpver (default /repo), the function BODY is translated statement by statement into a Lean
definition in the command monad `BV.Cmd` (lean/BumpverVerif/Model/Cmd.lean) and written to
lean/BumpverVerif/Gen/F_cmd<Name>.lean (namespace BV.GenL).  lean/BumpverVerif/Proofs/Tie_cmd*.lean prove the
generated definitions equal to the hand model (`normalizeSetVersion`, `gate`, `startVersion`, `cliTest`,
`cliUpdateVersion` of Model/Cli.lean; `plan` of Model/Plan.lean; `updateFull` of Model/Update.lean).

`CmdTranslator` subclasses `translate_effects.EffTranslator` (statement forms, A-normal-form hoisting of
effectful calls, `try/except`, joins) and renders into `Cmd.` instead of `Eff.`.  What is added is documented
in harness/TRANSLATE_COMMANDS.md.  The functions these six CALL are not re-translated: the definitions the
other translator modules generate are called (`GenC.…` of translate_cli.py, `GenE.…` of
translate_effects.py, `GenF.parseVcsOptions` of translate_funcs.py) — their signature tables are READ from
those modules, nothing in them is edited or patched.  Anything outside the subset raises `Untranslatable`;
the output file then holds only a comment `UNTRANSLATABLE: …`, so the ties that depend on it stop compiling.
"""
import ast
import os
import re
import sys

HERE = os.path.dirname(os.path.abspath(__file__))
sys.path.insert(0, HERE)

import translate_funcs as TF                                                       # noqa: E402
import translate_effects as TE                                                     # noqa: E402
import translate_cli as TC                                                         # noqa: E402
from translate_funcs import (Untranslatable, Var, BOOL, INT, NAT, LIT, STR, NONE, OPT, LIST, TUP, REC,   # noqa: E402
                             ENUM, OPAQUE, DICT, lean_ident, indent, sha256, _nl, _arm)
from translate_effects import Bind, wrap_binds, lean_chars, UNIT, ERASED, EXC      # noqa: E402

GEN_NS = "BV.GenL"
TYPES_FILE = "F_cmdTypes.lean"
TYPES_MODULE = "BumpverVerif.Gen.F_cmdTypes"
GENERATOR = "harness/translate_commands.py"

CONFIG = TE.CONFIG                 # REC("Config"): the structure GENERATED into Gen/F_effTypes.lean (GenE.Config)
VERSION = TC.VERSION               # the object `version.parse_version` returns (model: Parsed)
DATE = TC.DATE                     # datetime.date (opaque; model: Nat × Nat × Nat)
VINFO2 = OPAQUE("VInfo")
VINFO1 = OPAQUE("V1Info")
CTXOBJ = OPAQUE("Ctx")             # config.ProjectContext (never looked into)

# ----------------------------------------------------------------------------------
# ambient parameters (what the Python reads from outside its arguments)
# ----------------------------------------------------------------------------------
CTX_TYPES = {
    "today": "Date",                                    # version.TODAY
    "strptime": "Str → Str → Option DateTime",          # dt.datetime.strptime (none = ValueError)
    "datetime_date": "DateTime → Date",                 # datetime.date()
    "sub_msg_template": "Str → Str",                    # cli._sub_msg_template (re.sub on a message template)
    # `show --env/--environ`: the KEY=value lines of `for key, val in vinfo._asdict().items(): click.echo(f"…")`,
    # as a function of the SOURCE TEXT of the f-string and of the parsed version (the rendering is not modelled)
    "env_dump": "String → VInfo → List Str",
}
CTX_IMPLICIT = {"strptime": "{DateTime : Type}", "datetime_date": "{DateTime : Type}"}

# ----------------------------------------------------------------------------------
# callees
# ----------------------------------------------------------------------------------
FLAG_DEFAULTS = TC.FLAG_DEFAULTS


def _cli_callee(pyname, lean):
    """a function translated by translate_cli.py: the parameter list, the keyword-only boundary, the defaults,
    the ambient parameters and the abstracted globals are READ from its signature table"""
    sp = TC.BY_FUNC[pyname]
    if not sp.get("effect"):
        raise AssertionError(pyname)
    dfl = {}
    for k, v in sp.get("defaults", {}).items():
        dfl[k] = (("true" if v else "false"), BOOL) if isinstance(v, bool) else ("none", NONE)
    return dict(lean="GenC." + lean, ctx=list(sp.get("ctx", [])), xparams=dict(sp.get("xparams", {})),
                params=list(sp["params"]), kwonly=sp.get("kwonly", len(sp["params"])), defaults=dfl,
                ret=sp["ret"], lift="exc", imports=["BumpverVerif.Gen.F_%s" % sp["name"]])


def _tf_spec(name):
    return [s for s in TF.FUNCS if s["name"] == name][0]


# callees whose result is lifted into the monad:  lift = "exc"  : `Except Exc T`   -> Cmd.liftExc
#                                                  lift = "optV" : `Option T`, none = ValueError -> Cmd.ofOption
LIFTED = {
    "_validate_release_tag": _cli_callee("_validate_release_tag", "validateReleaseTag"),
    "_validate_flags": _cli_callee("_validate_flags", "validateFlags"),
    "_validate_date": _cli_callee("_validate_date", "validateDate"),
    "incr_dispatch": _cli_callee("incr_dispatch", "incrDispatch"),
    "_parse_version_tags": _cli_callee("_parse_version_tags", "parseVersionTags"),
    "_parse_vcs_options": dict(
        lean="GenF.parseVcsOptions", ctx=[], xparams={}, params=list(_tf_spec("parseVcsOptions")["params"]),
        kwonly=len(_tf_spec("parseVcsOptions")["params"]),
        defaults={p: ("none", NONE) for p, _ in _tf_spec("parseVcsOptions")["params"][1:]},
        ret=CONFIG, lift="optV", imports=["BumpverVerif.Gen.F_parseVcsOptions"]),
    # model callees behind the thin wrappers of Model/CliPrims.lean / Model/Cmd.lean
    "v2version.parse_version_info": dict(
        lean="pyV2ParseVersionInfo", ctx=["today"], xparams={}, params=[("version_str", STR), ("raw_pattern", STR)],
        kwonly=2, defaults={}, ret=VINFO2, lift="exc", imports=[]),
    "v1version.parse_version_info": dict(
        lean="pyV1ParseVersionInfo", ctx=[], xparams={}, params=[("version_str", STR), ("raw_pattern", STR)],
        kwonly=2, defaults={}, ret=VINFO1, lift="exc", imports=[]),
    "v2version.format_version": dict(
        lean="pyV2FormatVersion", ctx=[], xparams={}, params=[("vinfo", VINFO2), ("raw_pattern", STR)],
        kwonly=2, defaults={}, ret=STR, lift="exc", imports=[]),
    "v1version.format_version": dict(
        lean="pyV1FormatVersion", ctx=[], xparams={}, params=[("vinfo", VINFO1), ("raw_pattern", STR)],
        kwonly=2, defaults={}, ret=STR, lift="exc", imports=[]),
}

# functions translated by translate_effects.py, run with Cmd.liftEff
EFF_CALLEES = {
    "vcs.get_tags": TE.BY_NAME["getTags"],
    "_try_update": TE.BY_NAME["cliTryUpdate"],
}

# callees without any effect
PURE = {
    "version.to_pep440": dict(lean="pyToPep440", params=[STR], ret=STR, ctx=None),
    "version.parse_version": dict(lean="parseVersion", params=[STR], ret=VERSION, ctx=None),
    "_sub_msg_template": dict(lean="sub_msg_template", params=[STR], ret=STR, ctx="sub_msg_template"),
}

# calls that only log: no counterpart in the model
ERASED_CALLS = {"_log_no_change"}

# exception classes of `except` clauses -> BV.CClass
EXC_CLASSES = dict(TE.EXC_CLASSES)
EXC_CLASSES.update({"version.PatternError": "patternError", "PatternError": "patternError"})

CLICK_DECORATORS = ("env_option", "environ_option", "cli.command", "click.argument", "click.option", "verbose_option", "version_options", "dry_option",
                    "allow_dirty_option", "ignore_vcs_tag_option", "fetch_option")

# ----------------------------------------------------------------------------------
# the signature table
# ----------------------------------------------------------------------------------
VERSION_OPTS = [("major", BOOL), ("minor", BOOL), ("patch", BOOL), ("tag", OPT(STR)), ("tag_num", BOOL),
                ("pin_increments", BOOL), ("pin_date", BOOL), ("date", OPT(STR)), ("set_version", OPT(STR))]
VERSION_OPT_DEFAULTS = {"major": False, "minor": False, "patch": False, "tag": None, "tag_num": False,
                        "pin_increments": False, "pin_date": False, "date": None, "set_version": None}

LFUNCS = [
    dict(name="normalizeSetVersion", file="cli.py", func="_normalize_set_version",
         params=[("raw_pattern", STR), ("set_version", STR)], defaults={}, ctx=["today"], ret=STR),
    dict(name="isValidVersion", file="cli.py", func="_is_valid_version",
         params=[("raw_pattern", STR), ("old_version", STR), ("new_version", STR), ("unique", BOOL)],
         defaults={"unique": False}, ctx=["today"], ret=BOOL),
    dict(name="getLatestVcsVersionTag", file="cli.py", func="get_latest_vcs_version_tag", generic=True,
         params=[("cfg", CONFIG), ("fetch", BOOL)], defaults={}, ctx=["today"], ret=OPT(STR)),
    dict(name="updateCfgFromVcs", file="cli.py", func="_update_cfg_from_vcs", generic=True,
         params=[("cfg", CONFIG), ("fetch", BOOL)], defaults={}, ctx=["today"], ret=CONFIG),
    dict(name="test", file="cli.py", func="test", command=True,
         params=[("old_version", STR), ("pattern", STR), ("verbose", INT)] + VERSION_OPTS,
         defaults=dict(VERSION_OPT_DEFAULTS, verbose=0),
         ctx=["today", "strptime", "datetime_date"],
         externs={"_VERBOSE": ("verbose_global", INT)}, ret=UNIT),
    dict(name="update", file="cli.py", func="update", command=True, generic=True,
         params=[("dry", BOOL), ("allow_dirty", BOOL), ("ignore_vcs_tag", BOOL), ("fetch", BOOL), ("verbose", INT)]
         + VERSION_OPTS
         + [("commit_message", OPT(STR)), ("tag_message", OPT(STR)), ("commit", OPT(BOOL)), ("tag_commit", OPT(BOOL)),
            ("push", OPT(BOOL)), ("tag_scope", OPT(STR)), ("pre_commit_hook", OPT(STR)), ("post_commit_hook", OPT(STR))],
         defaults=dict(VERSION_OPT_DEFAULTS, dry=False, allow_dirty=False, ignore_vcs_tag=False, fetch=True, verbose=0,
                       commit_message=None, tag_message=None, commit=None, tag_commit=None, push=None, tag_scope=None,
                       pre_commit_hook=None, post_commit_hook=None),
         ctx=["today", "strptime", "datetime_date", "sub_msg_template"],
         # free expressions abstracted as extra parameters:
         #   the module global `_VERBOSE` before the command runs;
         #   `config.init(project_path=".")`: (ProjectContext, Optional[Config]) read from the config file
         externs={"_VERBOSE": ("verbose_global", INT),
                  "config.init(project_path='.')": ("config_init_x", TUP(CTXOBJ, OPT(CONFIG)))},
         implicit_extra=["{Ctx : Type}"],
         # `set(cfg.file_patterns.keys())` inside `_update` (translate_effects.py abstracts it the same way)
         extra_params=[("filepaths_x", LIST(STR))], ret=UNIT),
]
LFUNCS.append(
    dict(name="cmdShow", filebase="Show", file="cli.py", func="show", command=True, generic=True,   # `show` is a Lean keyword
         params=[("verbose", INT), ("ignore_vcs_tag", BOOL), ("fetch", BOOL), ("env", BOOL), ("environ", BOOL)],
         defaults=dict(verbose=0, ignore_vcs_tag=False, fetch=True, env=False, environ=False),
         ctx=["today", "env_dump"],
         externs={"_VERBOSE": ("verbose_global", INT),
                  "config.init(project_path='.')": ("config_init_x", TUP(CTXOBJ, OPT(CONFIG)))},
         implicit_extra=["{Ctx : Type}"], ret=UNIT))
BY_FUNC = {s["func"]: s for s in LFUNCS}


# ----------------------------------------------------------------------------------
class CmdTranslator(TE.EffTranslator):
    def __init__(self, spec, sources):
        TE.EffTranslator.__init__(self, spec, sources)
        self.fn = spec["func"]
        self.imports = []

    # ---------------------------------------------------------------- types
    def lean_type(self, t):
        k = t[0]
        if k == "version":
            return "Parsed"
        if k == "exc":
            return "CStop"
        return TE.EffTranslator.lean_type(self, t)

    def need_import(self, mod):
        if mod not in self.imports:
            self.imports.append(mod)

    def need_ctx(self, node, name):
        if name not in self.spec.get("ctx", []):
            self.bad(node, "needs the ambient parameter `%s`, which `%s` does not have" % (name, self.fn))

    # ---------------------------------------------------------------- erased calls
    def is_erased(self, node, env):
        if isinstance(node, ast.Call):
            d = self.dotted(node.func)
            if d in ERASED_CALLS:
                return True
            if d in LIFTED or d in PURE or d in EFF_CALLEES or d in BY_FUNC:
                return False
        return TE.EffTranslator.is_erased(self, node, env)

    # ---------------------------------------------------------------- effects
    def has_effect(self, node, env, readonly_ok=False):
        for n in ast.walk(node):
            if isinstance(n, ast.Subscript) and self.effect_kind(n, env) is not None:
                return True
        return TE.EffTranslator.has_effect(self, node, env, readonly_ok)

    def is_list_var(self, node, env):
        return isinstance(node, ast.Name) and node.id in env and env[node.id].type[0] == "list"

    def effect_kind(self, node, env):
        if isinstance(node, ast.Subscript):
            # xs[0] / xs[-1] on a list variable: IndexError on an empty list
            if self.is_list_var(node.value, env) and not isinstance(node.slice, ast.Slice):
                sl = node.slice
                if isinstance(sl, ast.Constant) and sl.value == 0:
                    return ("index", "head")
                if isinstance(sl, ast.UnaryOp) and isinstance(sl.op, ast.USub) and isinstance(sl.operand, ast.Constant) \
                        and sl.operand.value == 1:
                    return ("index", "last")
                self.bad(node, "only `xs[0]`, `xs[-1]`, `xs[:n]`, `xs[n:]` on lists")
            return None
        if isinstance(node, ast.Call):
            f = node.func
            d = self.dotted(f)
            head = f
            while isinstance(head, ast.Attribute):
                head = head.value
            shadow = isinstance(head, ast.Name) and head.id in env
            if not shadow:
                if d in LIFTED:
                    return ("lift", d)
                if d in EFF_CALLEES:
                    return ("effcallee", d)
                if d in BY_FUNC and d != self.spec["func"]:
                    return ("own", d)
                if d == "click.echo":
                    return ("echo",)
                if d == "_print_diff":
                    return ("printdiff",)
                if d in ("sys.exit", "exit"):
                    return ("exit",)
            if isinstance(f, ast.Attribute) and f.attr == "format" and not node.args and len(node.keywords) == 1 \
                    and node.keywords[0].arg is None:
                return ("format",)
            return None
        return None

    def bind_callee(self, node, env, name, cal):
        """the Lean argument list of a call, matched with the callee's parameter NAMES (positional up to the
        keyword-only boundary, then by keyword; omitted ones take the recorded default)"""
        bound = TC.CliTranslator.bind_args(self, node, cal, name)
        args = []
        for p, t in cal["params"]:
            if p in bound:
                v, vt = self.expr(bound[p], env)
                args.append(self.arg_coerce(v, vt, t, bound[p]))
            elif p in cal.get("defaults", {}):
                v, vt = cal["defaults"][p]
                args.append(self.arg_coerce(v, vt, t, node))
            else:
                self.bad(node, "argument `%s` of `%s` is missing" % (p, name))
        return args

    def arg_coerce(self, v, vt, t, node):
        out = self.coerce(v, vt, t, node)
        return out

    def verbose_global(self, node, env):
        """the current value of the module global `_VERBOSE` (set by `_configure_logging`)"""
        if "_VERBOSE" in env:
            return env["_VERBOSE"].lean
        ext = self.spec.get("externs", {})
        if "_VERBOSE" not in ext:
            self.bad(node, "the callee reads the global `_VERBOSE`, which `%s` does not abstract" % self.fn)
        return ext["_VERBOSE"][0]

    def mk_effect(self, node, env):
        kind = self.effect_kind(node, env)
        k = kind[0]
        if k == "index":
            xs, t = self.expr(node.value, env)
            if kind[1] == "head":
                term = "(match %s with | [] => Except.error Exc.indexError | x :: _ => Except.ok x)" % xs
            else:
                term = "(match List.getLast? %s with | none => Except.error Exc.indexError | some x => Except.ok x)" % xs
            return "(Eff.liftExc %s)" % term, t[1]
        if k == "lift":
            name = kind[1]
            cal = LIFTED[name]
            for c in cal["ctx"]:
                self.need_ctx(node, c)
            for imp in cal["imports"]:
                self.need_import(imp)
            args = self.bind_callee(node, env, name, cal)
            xs = []
            for key, (_ln, xt) in cal["xparams"].items():
                if key != "_VERBOSE" or xt != BOOL:
                    self.bad(node, "the abstracted global `%s` of `%s` is not known here" % (key, name))
                xs.append("(%s != 0)" % self.verbose_global(node, env))
            if cal["lift"] == "exc":
                term = "(%s)" % " ".join([cal["lean"]] + cal["ctx"] + xs + args)
                return "(Eff.liftExc %s)" % term, cal["ret"]
            # `_parse_vcs_options`: generated over its own copy of the Config structure (GenF.Config)
            conv = ["(cfgToF %s)" % a if t == CONFIG else a for a, (_p, t) in zip(args, cal["params"])]
            term = "(%s)" % " ".join([cal["lean"]] + conv)
            if cal["ret"] == CONFIG:
                term = "(Option.map cfgOfF %s)" % term
            return "(Eff.ofOption (.exc .valueError) %s)" % term, cal["ret"]
        if k == "effcallee":
            name = kind[1]
            sp = EFF_CALLEES[name]
            self.need_import("BumpverVerif.Gen.F_%s" % sp["name"])
            node_def = TE.find_function(self.src, sp, sp["func"])
            a = node_def.args
            names = [x.arg for x in a.args]
            dflt = {}
            for x, d in zip(a.args[len(a.args) - len(a.defaults):], a.defaults):
                if isinstance(d, ast.Constant) and isinstance(d.value, bool):
                    dflt[x.arg] = (("true" if d.value else "false"), BOOL)
                elif isinstance(d, ast.Constant) and d.value is None:
                    dflt[x.arg] = ("none", NONE)
            if names != [p for p, _ in sp["params"]] or a.kwonlyargs or a.vararg or a.kwarg:
                self.bad(node, "the parameters of `%s` differ from its signature table" % name)
            cal = dict(params=sp["params"], kwonly=len(sp["params"]), defaults=dflt)
            args = self.bind_callee(node, env, name, cal)
            for ln, t in self.extra_params_of(sp):
                mine = dict(self.extra_params_of(self.spec))
                if ln not in mine or mine[ln] != t:
                    self.bad(node, "the callee %s needs the abstracted parameter `%s`, which this function does not have"
                             % (name, ln))
                args.append(ln)
            return "(Eff.liftEff (GenE.%s%s))" % (sp["name"], "".join(" " + x for x in args)), sp["ret"]
        if k == "own":
            name = kind[1]
            sp = BY_FUNC[name]
            if sp.get("command"):
                self.bad(node, "a command called as a function")
            for c in sp.get("ctx", []):
                self.need_ctx(node, c)
            self.need(sp)
            dfl = {kk: (("true" if v else "false"), BOOL) if isinstance(v, bool) else ("none", NONE)
                   for kk, v in sp.get("defaults", {}).items()}
            cal = dict(params=sp["params"], kwonly=len(sp["params"]), defaults=dfl)
            args = self.bind_callee(node, env, name, cal)
            return "(%s)" % " ".join([sp["name"]] + list(sp.get("ctx", [])) + args), sp["ret"]
        if k == "echo":
            if len(node.args) != 1 or node.keywords:
                self.bad(node, "only `click.echo(text)`")
            v, t = self.expr(node.args[0], env)
            if t != STR:
                self.bad(node, "click.echo of a value of type %r" % (t,))
            return "(Eff.echo %s)" % v, UNIT
        if k == "printdiff":
            if len(node.args) != 2 or node.keywords:
                self.bad(node, "`_print_diff(cfg, new_version)`")
            c, tc = self.expr(node.args[0], env)
            v, tv = self.expr(node.args[1], env)
            if tc != CONFIG or tv != STR:
                self.bad(node, "`_print_diff` on %r and %r" % (tc, tv))
            return "(Eff.printDiff %s.current_version %s.version_pattern %s)" % (c, c, v), UNIT
        if k == "format":
            t_, tt = self.expr(node.func.value, env)
            kw, tk = self.expr(node.keywords[0].value, env)
            if tt != STR or tk != DICT(STR, STR):
                self.bad(node, "`template.format(**kwargs)` on %r and %r" % (tt, tk))
            return "(Eff.format %s %s)" % (t_, kw), STR
        return TE.EffTranslator.mk_effect(self, node, env)

    # ---------------------------------------------------------------- hoisting (A-normal form)
    def hoist(self, node, env):
        """as `EffTranslator.hoist`, extended to subscripts, f-strings, dict literals and `**kwargs`"""
        binds = []
        env2 = dict(env)

        def eff(n):
            return self.has_effect(n, env2)

        def bind(n2):
            term, t = self.mk_effect(n2, env2)
            name = self.fresh("t")
            binds.append(Bind(name, term, t))
            env2[name] = Var(name, t if t[0] != "never" else UNIT)
            return ast.copy_location(ast.Name(id=name, ctx=ast.Load()), n2)

        def go(n):
            if isinstance(n, ast.BoolOp):
                vals = [go(n.values[0])]
                for v in n.values[1:]:
                    if eff(v):
                        self.bad(v, "an effect in a later operand of `and`/`or` (it would be conditional)")
                    vals.append(v)
                return ast.copy_location(ast.BoolOp(op=n.op, values=vals), n)
            if isinstance(n, ast.IfExp):
                if eff(n.body) or eff(n.orelse):
                    self.bad(n, "an effect inside a branch of a conditional expression")
                return ast.copy_location(ast.IfExp(test=go(n.test), body=n.body, orelse=n.orelse), n)
            if isinstance(n, (ast.ListComp, ast.GeneratorExp, ast.SetComp, ast.DictComp, ast.Lambda)):
                if eff(n):
                    self.bad(n, "an effect inside a comprehension / lambda")
                return n
            if isinstance(n, ast.Call):
                if self.is_erased(n, env2):
                    if eff(n):
                        self.bad(n, "an effect inside the arguments of an erased call")
                    return n
                f2 = n.func
                if isinstance(f2, ast.Attribute):
                    f2 = ast.copy_location(ast.Attribute(value=go(f2.value), attr=f2.attr, ctx=f2.ctx), f2)
                args2 = [go(a) for a in n.args]
                kws2 = [ast.keyword(arg=kw.arg, value=go(kw.value)) for kw in n.keywords]
                n2 = ast.copy_location(ast.Call(func=f2, args=args2, keywords=kws2), n)
                if self.effect_kind(n2, env2) is None:
                    return n2
                return bind(n2)
            if isinstance(n, ast.Attribute):
                return ast.copy_location(ast.Attribute(value=go(n.value), attr=n.attr, ctx=n.ctx), n)
            if isinstance(n, ast.Compare):
                return ast.copy_location(ast.Compare(left=go(n.left), ops=n.ops, comparators=[go(c) for c in n.comparators]), n)
            if isinstance(n, ast.BinOp):
                return ast.copy_location(ast.BinOp(left=go(n.left), op=n.op, right=go(n.right)), n)
            if isinstance(n, ast.UnaryOp):
                return ast.copy_location(ast.UnaryOp(op=n.op, operand=go(n.operand)), n)
            if isinstance(n, ast.Subscript):
                n2 = ast.copy_location(ast.Subscript(value=go(n.value), slice=n.slice, ctx=n.ctx), n)
                if self.effect_kind(n2, env2) is not None:
                    return bind(n2)
                return n2
            if isinstance(n, (ast.Tuple, ast.List)):
                return ast.copy_location(type(n)(elts=[go(x) for x in n.elts], ctx=n.ctx), n)
            if isinstance(n, ast.JoinedStr):
                vals = []
                for v in n.values:
                    if isinstance(v, ast.FormattedValue):
                        vals.append(ast.copy_location(ast.FormattedValue(value=go(v.value), conversion=v.conversion,
                                                                         format_spec=v.format_spec), v))
                    else:
                        vals.append(v)
                return ast.copy_location(ast.JoinedStr(values=vals), n)
            if isinstance(n, ast.Dict):
                if any(kx is None for kx in n.keys):
                    self.bad(n, "`**` inside a dict literal")
                return ast.copy_location(ast.Dict(keys=list(n.keys), values=[go(v) for v in n.values]), n)
            if eff(n):
                self.bad(n, "an effect inside an expression form %s" % type(n).__name__)
            return n

        if not self.has_effect(node, env):
            return [], node, env
        out = go(node)
        ast.fix_missing_locations(out)
        if not binds:
            return [], node, env
        return binds, out, env2

    # ---------------------------------------------------------------- expressions (additions)
    def expr(self, node, env):
        if isinstance(node, ast.JoinedStr):
            pieces = []
            for v in node.values:
                if isinstance(v, ast.Constant) and isinstance(v.value, str):
                    pieces.append(lean_chars(v.value))
                elif isinstance(v, ast.FormattedValue) and v.conversion == -1 and v.format_spec is None:
                    p, t = self.expr(v.value, env)
                    if t != STR:
                        self.bad(node, "f-string with a piece of type %r (only str pieces)" % (t,))
                    pieces.append(p)
                else:
                    self.bad(node, "f-string with a conversion or a format spec")
            return "(" + " ++ ".join(pieces or ["([] : Str)"]) + ")", STR
        if isinstance(node, ast.Dict):
            items = []
            seen = set()
            for kx, vx in zip(node.keys, node.values):
                if not (isinstance(kx, ast.Constant) and isinstance(kx.value, str)) or kx.value in seen:
                    self.bad(node, "only dict literals with distinct string-literal keys")
                seen.add(kx.value)
                v, t = self.expr(vx, env)
                if t != STR:
                    self.bad(node, "dict literal with a value of type %r (only str values)" % (t,))
                items.append("(%s, %s)" % (lean_chars(kx.value), v))
            return "[" + ", ".join(items) + "]", DICT(STR, STR)
        if isinstance(node, ast.Attribute) and node.attr == "value":
            val, t = self.expr(node.value, env)
            if t[0] == "enum":
                self.enum(t[1])
                return "(%s.value %s)" % (t[1], val), STR
            self.bad(node, "`.value` on a value of type %r" % (t,))
        if isinstance(node, ast.Subscript) and isinstance(node.slice, ast.Slice):
            val, t = self.expr(node.value, env)
            if t[0] == "list" and t[1] is not None:
                sl = node.slice
                if sl.step is not None or (sl.lower is not None and sl.upper is not None):
                    self.bad(node, "only `xs[:n]` and `xs[n:]` slices")
                for bnd, prim in ((sl.lower, "List.drop"), (sl.upper, "List.take")):
                    if bnd is not None:
                        b, tb = self.expr(bnd, env)
                        if tb not in (LIT, NAT):
                            self.bad(node, "slice bounds must be non-negative ints")
                        return "(%s %s %s)" % (prim, b, val), t
                return val, t
            self.bad(node, "slice of a value of type %r" % (t,))
        return TE.EffTranslator.expr(self, node, env)

    def compare1(self, op, ln, rn, env, node):
        if self.is_version_expr(ln, env) or self.is_version_expr(rn, env):
            a, ta = self.expr(ln, env)
            b, tb = self.expr(rn, env)
            if ta != VERSION or tb != VERSION:
                self.bad(node, "comparison on %r and %r" % (ta, tb))
            table = {ast.LtE: "(verLe %s %s)" % (a, b), ast.Lt: "(verLt %s %s)" % (a, b),
                     ast.GtE: "(verLe %s %s)" % (b, a), ast.Gt: "(verLt %s %s)" % (b, a),
                     ast.Eq: "(verEqKey %s %s)" % (a, b), ast.NotEq: "(!verEqKey %s %s)" % (a, b)}
            if type(op) not in table:
                self.bad(node, "comparison %s on version objects" % type(op).__name__)
            return table[type(op)]
        return TE.EffTranslator.compare1(self, op, ln, rn, env, node)

    def is_version_expr(self, n, env):
        if isinstance(n, ast.Call) and self.dotted(n.func) == "version.parse_version":
            return True
        return isinstance(n, ast.Name) and n.id in env and env[n.id].type == VERSION

    def call(self, node, env):
        f = node.func
        d = self.dotted(f)
        head = f
        while isinstance(head, ast.Attribute):
            head = head.value
        shadow = isinstance(head, ast.Name) and head.id in env
        if d in PURE and not shadow:
            cal = PURE[d]
            if cal["ctx"]:
                self.need_ctx(node, cal["ctx"])
            if node.keywords or len(node.args) != len(cal["params"]):
                self.bad(node, "`%s` takes %d positional argument(s)" % (d, len(cal["params"])))
            args = []
            for a, t in zip(node.args, cal["params"]):
                v, vt = self.expr(a, env)
                args.append(self.coerce(v, vt, t, a))
            return "(%s)" % " ".join([cal["lean"]] + args), cal["ret"]
        if d == "max" and not shadow and len(node.args) == 2 and not node.keywords:
            a, ta = self.expr(node.args[0], env)
            b, tb = self.expr(node.args[1], env)
            if not (TF.is_intlike(ta) and TF.is_intlike(tb)):
                self.bad(node, "`max` on %r and %r (only two ints)" % (ta, tb))
            return "(pyMaxInt %s %s)" % (self.coerce(a, ta, INT, node), self.coerce(b, tb, INT, node)), INT
        if isinstance(f, ast.Attribute) and f.attr == "join" and len(node.args) == 1 and not node.keywords:
            sep, ts = self.expr(f.value, env)
            xs, txs = self.expr(node.args[0], env)
            if ts != STR or txs != LIST(STR):
                self.bad(node, "`join` on %r and %r" % (ts, txs))
            return "(join %s %s)" % (sep, xs), STR
        if self.effect_kind(node, env) is not None:
            self.bad(node, "a call with an effect in a position where it cannot be sequenced")
        return TE.EffTranslator.call(self, node, env)

    # ---------------------------------------------------------------- statements
    def is_set_verbose(self, st):
        """`_configure_logging(v)` / `_configure_logging(verbose=v)`: apart from configuring the `logging`
        module it assigns the module global `_VERBOSE = v`"""
        if not (isinstance(st, ast.Expr) and isinstance(st.value, ast.Call) and self.dotted(st.value.func) == "_configure_logging"):
            return None
        c = st.value
        if len(c.args) == 1 and not c.keywords:
            return c.args[0]
        if not c.args and len(c.keywords) == 1 and c.keywords[0].arg == "verbose":
            return c.keywords[0].value
        self.bad(st, "`_configure_logging` takes exactly the argument `verbose`")

    def block(self, stmts, env, k):
        if not stmts:
            return k(env)
        st, rest = stmts[0], stmts[1:]

        def kr(e):
            return self.block(rest, e, k)
        arg = self.is_set_verbose(st)
        if arg is not None and "_configure_logging" not in env:
            if self.has_effect(arg, env):
                self.bad(st, "an effect inside the argument of `_configure_logging`")
            v, t = self.expr(arg, env)
            if not TF.is_intlike(t):
                self.bad(st, "`_configure_logging` of a value of type %r" % (t,))
            env2 = dict(env)
            env2["_VERBOSE"] = Var("verbose_set", INT)
            return "let verbose_set : Int := %s;\n%s" % (self.coerce(v, t, INT, st), kr(env2))
        # xs.sort(key=…, reverse=…) on a list variable
        if (isinstance(st, ast.Expr) and isinstance(st.value, ast.Call) and isinstance(st.value.func, ast.Attribute)
                and st.value.func.attr == "sort" and self.is_list_var(st.value.func.value, env) and not st.value.args):
            name = st.value.func.value.id
            var = env[name]
            lt, kf, reverse = TC.CliTranslator.sorted_call(self, st.value, "sort", var.lean, var.type)
            env2 = dict(env)
            env2[name] = Var(lean_ident(name), var.type)
            return "let %s := (%s %s %s %s);\n%s" % (lean_ident(name), "pySortedRev" if reverse else "pySorted",
                                                      lt, kf, var.lean, kr(env2))
        # a, b = <pure value of a tuple type>   (`_` = not used)
        if isinstance(st, ast.Assign) and len(st.targets) == 1 and isinstance(st.targets[0], ast.Tuple):
            tg = st.targets[0]
            if self.has_effect(st.value, env):
                self.bad(st, "tuple unpacking of the result of a call with effects")
            v, t = self.expr(st.value, env)
            if t[0] != "tuple" or len(t[1]) != len(tg.elts) or not all(isinstance(x, ast.Name) for x in tg.elts):
                self.bad(st, "tuple unpacking of a value of type %r into `%s`" % (t, self.dotted(tg)))
            env2 = dict(env)
            lets = ""
            n = len(tg.elts)
            for i, (x, xt) in enumerate(zip(tg.elts, t[1])):
                if x.id == "_":
                    continue
                path = ".2" * i + (".1" if i < n - 1 else "")
                lets += "let %s := %s%s;\n" % (lean_ident(x.id), v, path)
                env2[x.id] = Var(lean_ident(x.id), xt)
            return lets + kr(env2)
        return TE.EffTranslator.block(self, stmts, env, k)

    def for_stmt(self, st, rest, env, k):
        """for key, val in <vinfo>._asdict().items(): click.echo(f"…")   — the KEY=value dump of `show --env/--environ`:
             Cmd.bind (Cmd.echoAll (env_dump "<source text of the f-string>" vinfo)) (fun _ => REST)"""
        it = st.iter
        if (isinstance(it, ast.Call) and isinstance(it.func, ast.Attribute) and it.func.attr == "items" and not it.args
                and isinstance(it.func.value, ast.Call) and isinstance(it.func.value.func, ast.Attribute)
                and it.func.value.func.attr == "_asdict" and not it.func.value.args):
            obj = it.func.value.func.value
            v, t = self.expr(obj, env)
            if t == VINFO2:
                body = [b for b in st.body if not self.is_noop(b, env)]
                if (st.orelse or len(body) != 1 or not isinstance(body[0], ast.Expr)
                        or not isinstance(body[0].value, ast.Call) or self.dotted(body[0].value.func) != "click.echo"
                        or len(body[0].value.args) != 1 or body[0].value.keywords
                        or not isinstance(body[0].value.args[0], ast.JoinedStr)):
                    self.bad(st, "the dump loop must be `for key, val in vinfo._asdict().items(): click.echo(f\"…\")`")
                self.need_ctx(st, "env_dump")
                self.need_import("BumpverVerif.Model.CmdShow")
                text = ast.unparse(body[0].value.args[0])
                lit = '"' + text.replace("\\", "\\\\").replace('"', '\\"') + '"'
                return "Eff.bind (Eff.echoAll (env_dump %s %s)) (fun _ =>\n%s)" % (lit, v, self.block(rest, env, k))
        return TE.EffTranslator.for_stmt(self, st, rest, env, k)

    def key_func(self, node, fname):
        return TC.CliTranslator.key_func(self, node, fname)

    def raise_stmt(self, st, env):
        out = TE.EffTranslator.raise_stmt(self, st, env)
        m = re.match(r"^Eff\.throw \.(\w+)$", out)
        if m:
            return "Eff.throw (.eff .%s)" % m.group(1)
        return out

    def handler_class(self, h):
        if h.type is None:
            return ["baseException"]
        types = h.type.elts if isinstance(h.type, ast.Tuple) else [h.type]
        out = []
        for t in types:
            d = self.dotted(t)
            if d not in EXC_CLASSES:
                self.bad(h, "exception class `%s` is not in the table" % d)
            out.append(EXC_CLASSES[d])
        return out

    def if_stmt(self, st, rest, env, k):
        body, orelse = list(st.body), list(st.orelse)
        if self.always_exits(body, env) or self.always_exits(orelse, env):
            # one branch never reaches its end (return / raise / sys.exit on every path): what follows the `if`
            # belongs to the other branch, which keeps the narrowing of the test (`if x is None: sys.exit(1)`)
            def kr(e):
                return self.block(rest, e, k)
            binds, test, env2 = self.hoist(st.test, env)
            return wrap_binds(binds, self.cond(test, env2, lambda e: self.block(body, e, kr),
                                               lambda e: self.block(orelse, e, kr)))
        return TE.EffTranslator.if_stmt(self, st, rest, env, k)

    def try_stmt(self, st, rest, env, k):
        body, handlers = list(st.body), list(st.handlers)
        if (not st.orelse and not st.finalbody and handlers and not self.contains_return(body)
                and not self.always_exits(body, env)
                and any(self.contains_return(h.body) for h in handlers)
                and all(self.always_exits(h.body, env) for h in handlers)):
            return self.try_fallthrough(st, rest, env, k)
        return TE.EffTranslator.try_stmt(self, st, rest, env, k)

    def try_fallthrough(self, st, rest, env, k):
        """try: BODY (falls through)  except C: … return v      — every handler returns / exits:
             Cmd.bind (Cmd.tryCatch (BODY; pure (Sum.inr vars)) (fun ex => if ex.isA C then … pure (Sum.inl v) else throw ex))
                      (fun r => match r with | Sum.inl v => return v | Sum.inr vars => REST)"""
        body, handlers = list(st.body), list(st.handlers)
        assigned = {n.id for s in body for n in ast.walk(s) if isinstance(n, ast.Name) and isinstance(n.ctx, ast.Store)}
        for h in handlers:
            for n in ast.walk(ast.Module(body=h.body, type_ignores=[])):
                if isinstance(n, ast.Name) and isinstance(n.ctx, ast.Load) and n.id in assigned and n.id not in env:
                    self.bad(h, "the handler reads `%s`, which is assigned inside the try body" % n.id)
        probes = self.probe_paths(lambda pk: self.block(body, env, pk), env)
        if not probes:
            self.bad(st, "internal: a try body that falls through without a normal exit")
        names, jt = self.join_types(env, probes, st)

        def tup(e):
            vals = [self.coerce(e[n].lean, e[n].type, jt[n], st) for n in names]
            if not vals:
                return "()"
            return vals[0] if len(vals) == 1 else "(" + ", ".join(vals) + ")"
        body_t = self.block(body, env, lambda e: "Eff.pure (Sum.inr %s)" % tup(e))
        exname = self.fresh("ex")
        chain = "Eff.throw %s" % exname
        self.ret_stack.append(lambda v: "Eff.pure (Sum.inl %s)" % v)
        try:
            for h in reversed(handlers):
                classes = self.handler_class(h)
                e2 = dict(env)
                if h.name:
                    e2[h.name] = Var(exname, EXC)
                self.handler_exc.append(exname)
                try:
                    hb = self.block(list(h.body), e2, lambda e: "Eff.throw (.exc .valueError) /- unreachable -/")
                finally:
                    self.handler_exc.pop()
                test = " || ".join("%s.isA .%s" % (exname, c) for c in classes)
                chain = "if %s then\n%s\nelse %s" % (test, indent(hb, 2), chain)
        finally:
            self.ret_stack.pop()
        h_t = "(fun %s =>\n%s)" % (exname, indent(chain, 2))
        term = "Eff.tryCatch\n%s\n%s" % (indent("(" + body_t + ")", 2), indent(h_t, 2))
        env2 = dict(env)
        for n in names:
            env2[n] = Var(lean_ident(n), jt[n])
        pat = "_" if not names else (lean_ident(names[0]) if len(names) == 1 else
                                     "(" + ", ".join(lean_ident(n) for n in names) + ")")
        r = self.fresh("r")
        inner = "match %s with\n  | Sum.inl v_ => %s\n  | Sum.inr %s => %s" % (
            r, _arm(self.do_return("v_")), pat, _arm(self.block(rest, env2, k)))
        return "Eff.bind (%s) (fun %s =>\n%s)" % (term, r, inner)

    # ---------------------------------------------------------------- the whole function
    def translate(self):
        spec = self.spec
        node = TE.find_function(self.src, spec, self.fn)
        src, _ = self.src.module(spec["file"])
        self.source_text = ast.get_source_segment(src, node)
        a = node.args
        if a.vararg or a.kwarg or a.kwonlyargs or a.posonlyargs:
            self.bad(node, "only plain positional parameters")
        pynames = [x.arg for x in a.args]
        if pynames != [p for p, _ in spec["params"]]:
            self.bad(node, "parameters are %s, the signature table expects %s" % (pynames, [p for p, _ in spec["params"]]))
        found = {}
        for arg, d in zip(a.args[len(a.args) - len(a.defaults):], a.defaults):
            found[arg.arg] = d
        want = spec.get("defaults", {})
        if set(found) != set(want):
            self.bad(node, "parameters with defaults are %s, the signature table expects %s" % (sorted(found), sorted(want)))
        for n, d in found.items():
            if not (isinstance(d, ast.Constant) and type(d.value) is type(want[n]) and d.value == want[n]):
                self.bad(node, "default of `%s` is `%s`, the signature table expects `%r`" % (n, ast.unparse(d), want[n]))
        decos = [self.dotted(d.func) if isinstance(d, ast.Call) else self.dotted(d) for d in node.decorator_list]
        if spec.get("command"):
            # click's option parsing is outside the translation: the function is translated as a function of its
            # arguments.  Only the KIND of decorator is checked.
            if not decos or decos[0] != "cli.command" or any(x not in CLICK_DECORATORS for x in decos):
                self.bad(node, "decorators are %s (expected @cli.command() and click option decorators)" % decos)
        elif decos:
            self.bad(node, "decorators are %s" % decos)
        env = {}
        params = []
        implicit = []
        if spec.get("generic"):
            implicit.append("{α : Type}")
        for c in spec.get("ctx", []):
            if c in CTX_IMPLICIT and CTX_IMPLICIT[c] not in implicit:
                implicit.append(CTX_IMPLICIT[c])
        implicit += spec.get("implicit_extra", [])
        for c in spec.get("ctx", []):
            params.append("(%s : %s)" % (c, CTX_TYPES[c]))
        for _key, (ln, t) in spec.get("externs", {}).items():
            if t[0] == "tuple":
                for x in t[1]:
                    if x[0] == "opt" and x[1][0] == "rec":
                        self.record(x[1][1])
            params.append("(%s : %s)" % (ln, self.lean_type(t)))
        for ln, t in spec.get("extra_params", []):
            params.append("(%s : %s)" % (ln, self.lean_type(t)))
        for p, t in spec["params"]:
            if t[0] == "rec":
                self.record(t[1])
            if t[0] == "enum":
                self.enum(t[1])
            env[p] = Var(lean_ident(p), t)
            params.append("(%s : %s)" % (lean_ident(p), self.lean_type(t)))
        rt = self.lean_type(spec["ret"])
        self.ret_stack = [lambda v: "Eff.pure %s" % v]

        def fall_off(e):
            if spec["ret"] == UNIT:
                return "Eff.pure ()"
            if spec["ret"][0] == "opt":
                return "Eff.pure none"
            self.bad(node, "the function can fall off its end but is declared to return %r" % (spec["ret"],))
        body = self.block(list(node.body), env, fall_off)
        for key, (ln, _) in spec.get("externs", {}).items():
            if ln not in body:
                self.bad(node, "the expression `%s` (abstracted as parameter `%s`) does not occur" % (key, ln))
        for ln, _ in spec.get("extra_params", []):
            if ln not in body:
                self.bad(node, "the abstracted parameter `%s` is not used" % ln)
        head = "def %s %s%s : Cmd %s :=" % (spec["name"], (" ".join(implicit) + " ") if implicit else "",
                                           " ".join(params), rt if " " not in rt else "(" + rt + ")")
        text = head + "\n" + indent(body, 2) + "\n"
        # the statement forms are rendered by `EffTranslator` with the combinators of `Eff`; the command monad
        # has combinators of the same names and types (Model/Cmd.lean)
        return qualify(re.sub(r"\bEff\.", "Cmd.", text))


# ----------------------------------------------------------------------------------
# file generation
# ----------------------------------------------------------------------------------
HEADER = "/- GENERATED by %s from the Python AST. Do not edit." % GENERATOR


def qualify(text):
    """the generated `config.Config` / `config.TagScope` are the copies of Gen/F_effTypes.lean (namespace BV.GenE;
    the bare names would be the hand model's `BV.TagScope`)"""
    return re.sub(r"(?<![.\w])(TagScope|Config)\b", r"GenE.\1", text)


def file_name(spec):
    base = spec.get("filebase") or (spec["name"][0].upper() + spec["name"][1:])
    return "F_cmd%s.lean" % base


def render_types(sources):
    """Gen/F_cmdTypes.lean: the conversions between the copies of `config.Config` / `config.TagScope` that the
    translator modules generate (GenE: translate_effects.py, used here; GenF: translate_funcs.py, used by
    `_parse_vcs_options`), GENERATED field by field / member by member from the class definitions."""
    spec = dict(name="cmdTypes", file="config.py", func="<class definitions TagScope, Config>", params=[], ret=UNIT)
    tr = CmdTranslator(spec, sources)
    try:
        members = tr.enum("TagScope")
        rec = tr.record("Config")
        csrc, _ = sources.module("config.py")
        _, cnode = sources.find("config.py", ast.ClassDef, "Config")
        _, enode = sources.find("config.py", ast.ClassDef, "TagScope")
        h = sha256(ast.get_source_segment(csrc, cnode) + ast.get_source_segment(csrc, enode))
        to_f = "\n".join("  | .%s => .%s" % (lean_ident(m), lean_ident(m)) for m, _ in members)
        fields_to, fields_of = [], []
        for f, path, ft in rec["fields"]:
            if ft == ENUM("TagScope"):
                fields_to.append("%s := scopeToF c.%s" % (path, path))
                fields_of.append("%s := scopeOfF c.%s" % (path, path))
            else:
                fields_to.append("%s := c.%s" % (path, path))
                fields_of.append("%s := c.%s" % (path, path))
    except Exception as ex:
        return TYPES_FILE, "\n".join([HEADER, "   UNTRANSLATABLE: %s: %s -/" % (type(ex).__name__, str(ex).replace("-/", "- /")), ""]), ex
    lines = [HEADER,
             "   source   : src/bumpver/config.py (classes TagScope, Config)",
             "   sha256   : %s  (of the two class definitions) -/" % h,
             "import BumpverVerif.Model.Cmd",
             "import %s" % TE.TYPES_MODULE,
             "import BumpverVerif.Gen.F_parseVcsOptions",
             "set_option linter.unusedVariables false",
             "namespace %s" % GEN_NS, "",
             "/-- the same member of the copy of `config.TagScope` generated by translate_funcs.py -/",
             "def scopeToF : GenE.TagScope → GenF.TagScope\n%s" % to_f, "",
             "def scopeOfF : GenF.TagScope → GenE.TagScope\n%s" % to_f, "",
             "/-- the same record in the copy of `config.Config` generated by translate_funcs.py, field by field -/",
             "def cfgToF {α : Type} (c : GenE.Config α) : GenF.Config α :=\n  { %s }" % ",\n    ".join(fields_to), "",
             "def cfgOfF {α : Type} (c : GenF.Config α) : GenE.Config α :=\n  { %s }" % ",\n    ".join(fields_of), "",
             "end %s" % GEN_NS, ""]
    return TYPES_FILE, "\n".join(lines), None


def render(spec, sources):
    fname = file_name(spec)
    tr = CmdTranslator(spec, sources)
    where = "src/bumpver/%s" % spec["file"]
    try:
        body = tr.translate()
    except Untranslatable as ex:
        text = getattr(tr, "source_text", None)
        lines = [HEADER, "   source   : %s" % where, "   function : %s" % spec["func"],
                 "   sha256   : %s" % (sha256(text) if text else "(function not found)"), "",
                 "   UNTRANSLATABLE: %s" % str(ex).replace("-/", "- /"),
                 "   (no definition is generated; the ties that use %s.%s cannot compile until this is resolved) -/"
                 % (GEN_NS, spec["name"]), ""]
        return fname, "\n".join(lines), ex
    except Exception as ex:   # unreadable / unparsable source or an internal error: never a silent success
        lines = [HEADER, "   source   : %s" % where, "   function : %s" % spec["func"], "",
                 "   UNTRANSLATABLE: the source could not be read/parsed/translated: %s: %s -/"
                 % (type(ex).__name__, str(ex).replace("-/", "- /")), ""]
        return fname, "\n".join(lines), ex
    lines = [HEADER, "   source   : %s" % where, "   function : %s" % spec["func"],
             "   sha256   : %s  (of the function's source text) -/" % sha256(tr.source_text),
             "import %s" % TYPES_MODULE]
    for imp in tr.imports:
        lines.append("import %s" % imp)
    for d in tr.deps:
        lines.append("import BumpverVerif.Gen.%s" % file_name(dict(name=d))[:-5])
    lines += ["set_option linter.unusedVariables false", "namespace %s" % GEN_NS, ""]
    for a in tr.aux_defs:
        lines.append(qualify(re.sub(r"\bEff\.", "Cmd.", a)))
    lines.append("/-- `%s.%s` -/" % (spec["file"][:-3], spec["func"]))
    lines.append(body)
    lines.append("end %s" % GEN_NS)
    lines.append("")
    return fname, "\n".join(lines), None


def generate(report=None, only=None):
    """{filename: content} for lean/BumpverVerif/Gen/ ; `report` collects (python name, file, error)"""
    sources = TF.Sources()
    out = {}
    fname, content, err = render_types(sources)
    out[fname] = content
    if report is not None:
        report.append(("config.Config/TagScope (conversions)", fname, err))
    for spec in LFUNCS:
        if only and spec["name"] not in only:
            continue
        fname, content, err = render(spec, sources)
        out[fname] = content
        if report is not None:
            report.append(("cli." + spec["func"], fname, err))
    return out


def main():
    rep = []
    files = generate(rep)
    gen = os.path.join(os.path.dirname(HERE), "lean", "BumpverVerif", "Gen")
    if "--write" in sys.argv:
        for name, content in files.items():
            path = os.path.join(gen, name)
            old = open(path, encoding="utf-8").read() if os.path.exists(path) else None
            if old != content:
                with open(path, "w", encoding="utf-8") as f:
                    f.write(content)
                print("wrote", name)
    for func, fname, err in rep:
        print("%-40s %-34s %s" % (func, fname, "ok" if err is None else "UNTRANSLATABLE: %s" % err))
    if "--show" in sys.argv:
        for name, content in files.items():
            print("=" * 20, name)
            print(content)
    return 0


if __name__ == "__main__":
    sys.exit(main())
