"""The ONE place that names bumpver's functions.  Everything is imported from
/repo's working tree (the /venv install is editable -> /repo/src); set
VERIF_REPO to point somewhere else (scratch worktrees for seeded changes)."""
import os, sys

REPO = os.environ.get("VERIF_REPO", "/repo")
_src = os.path.join(REPO, "src")
if _src not in sys.path:
    sys.path.insert(0, _src)

import datetime as dt


def exc_name(ex):
    n = type(ex).__name__
    if n in ("PatternError", "NoPatternMatch", "ValueError", "TypeError", "OverflowError", "KeyError",
             "IndexError", "AssertionError", "OSError", "FileNotFoundError", "AttributeError"):
        return n
    if isinstance(ex, SystemExit):
        return "SystemExit(%s)" % (ex.code,)
    return "other:" + n


# ---- C17 ---------------------------------------------------------------

def next_id(s):
    import lexid
    try:
        return {"ok": lexid.next_id(s)}
    except OverflowError:
        return {"err": "OverflowError"}


def bump_bid(s):
    """BUILD step of v2version._incr_numeric, observed through the real function."""
    from bumpver import v2version, version
    vinfo = v2version.parse_field_values_to_vinfo({"bid": s})
    try:
        new = v2version._incr_numeric("BUILD", vinfo, vinfo, major=False, minor=False, patch=False,
                                      tag=None, tag_num=False, pin_increments=True)
        return {"ok": new.bid}
    except OverflowError:
        return {"err": "OverflowError"}


# ---- C12 / C11: VCS command layer ----------------------------------------

class _Capture:
    """patches vcs.sp.check_output; records argv, returns canned output"""

    def __init__(self, output=b""):
        self.calls = []
        self.output = output

    def __enter__(self):
        from bumpver import vcs
        self._vcs = vcs
        self._orig = vcs.sp.check_output

        def fake(cmd_parts, **kw):
            self.calls.append(list(cmd_parts))
            return self.output
        vcs.sp.check_output = fake
        return self

    def __exit__(self, *a):
        self._vcs.sp.check_output = self._orig


def vcs_argv(vcs_name, cmd, kw):
    from bumpver import vcs
    api = vcs.VCSAPI(vcs_name)
    with _Capture() as cap:
        try:
            api(cmd, **kw)
        except (ValueError, KeyError, IndexError) as ex:
            return {"err": exc_name(ex)}
    return {"ok": cap.calls[0]}


def py_format(tmpl, kw):
    try:
        return {"ok": tmpl.format(**kw)}
    except (ValueError, KeyError, IndexError, AttributeError) as ex:
        return {"err": exc_name(ex)}


def shlex_split(s):
    import shlex
    try:
        return {"ok": shlex.split(s)}
    except ValueError:
        return {"err": "ValueError"}


def sub_msg(m):
    from bumpver import cli
    return {"ok": cli._sub_msg_template(m)}


def dirty_verdict(status_text, files, allow):
    from bumpver import vcs
    api = vcs.VCSAPI("git")
    with _Capture(status_text.encode("utf-8")):
        try:
            vcs.assert_not_dirty(api, set(files), allow)
            return {"ok": "proceed"}
        except SystemExit:
            return {"ok": "abort"}
        except ValueError:
            return {"err": "ValueError"}


# ---- v2 patterns / versions ------------------------------------------------

def _match_json(m):
    if m is None:
        return {"nomatch": 1}
    return {"span": [m.start(), m.end()], "groups": {k: v for k, v in m.groupdict().items() if v is not None}}


def compile_str(pattern):
    from bumpver import v2patterns
    import re
    try:
        return {"ok": v2patterns._compile_pattern_re(pattern).pattern}
    except re.error:
        return {"err": "re.error"}


def compile_search(pattern, line, mode="search"):
    from bumpver import v2patterns
    import re
    try:
        rx = v2patterns._compile_pattern_re(pattern)
    except re.error:
        return {"err": "re.error"}
    return _match_json(rx.search(line) if mode == "search" else rx.match(line))


def re_search(src, line):
    import re
    try:
        return _match_json(re.compile(src).search(line))
    except re.error:
        return {"err": "re.error"}


def normalize(version_pattern, raw_pattern):
    from bumpver import v2patterns
    try:
        return {"ok": v2patterns.normalize_pattern(version_pattern, raw_pattern)}
    except IndexError:
        return {"err": "IndexError"}


def to_pep440_pattern(version_pattern):
    from bumpver import v2patterns
    try:
        return {"ok": v2patterns._convert_to_pep440(version_pattern)}
    except IndexError:
        return {"err": "IndexError"}


def make_vinfo(state):
    """state: dict with optional 'date' [y,m,d] (all nine calendar fields from that date) and
    major minor patch bid tag num inc0 inc1"""
    from bumpver import version, v2version
    kw = dict(year_y=None, year_g=None, quarter=None, month=None, dom=None, doy=None, week_w=None, week_u=None, week_v=None,
              major=0, minor=0, patch=0, bid="1000", tag="final", pytag="", githash="", hexhash="", num=0, inc0=0, inc1=1)
    if state.get("date"):
        kw.update(v2version.cal_info(dt.date(*state["date"]))._asdict())
    for k in ("major", "minor", "patch", "bid", "tag", "num", "inc0", "inc1"):
        if k in state:
            kw[k] = state[k]
    kw["pytag"] = version.PEP440_TAG_BY_TAG[kw["tag"]]
    return version.V2VersionInfo(**kw)


def format_version(state, pattern):
    from bumpver import v2version
    try:
        return {"ok": v2version.format_version(make_vinfo(state), pattern)}
    except (ValueError, KeyError, IndexError) as ex:
        return {"err": exc_name(ex)}


CAL_FIELDS = ["year_y", "year_g", "quarter", "month", "dom", "doy", "week_w", "week_u", "week_v"]


def vinfo_json(vi):
    return {"cal": [getattr(vi, f) for f in CAL_FIELDS], "major": vi.major, "minor": vi.minor, "patch": vi.patch,
            "bid": vi.bid, "tag": vi.tag, "pytag": vi.pytag, "num": vi.num, "inc0": vi.inc0, "inc1": vi.inc1}


def vinfo_from_json(j):
    from bumpver import version
    kw = dict(zip(CAL_FIELDS, j["cal"]))
    kw.update(major=j["major"], minor=j["minor"], patch=j["patch"], bid=j["bid"], tag=j["tag"], pytag=j["pytag"],
              githash="", hexhash="", num=j["num"], inc0=j["inc0"], inc1=j["inc1"])
    return version.V2VersionInfo(**kw)


class _Today:
    def __init__(self, ymd):
        self.ymd = ymd

    def __enter__(self):
        from bumpver import version
        self._v = version
        self._old = version.TODAY
        version.TODAY = dt.date(*self.ymd)

    def __exit__(self, *a):
        self._v.TODAY = self._old


def _quiet():
    import logging
    logging.disable(logging.CRITICAL)


def parse_version(version_str, pattern, today):
    from bumpver import v2version, version
    import re
    _quiet()
    with _Today(today):
        try:
            vi = v2version.parse_version_info(version_str, pattern)
        except version.PatternError:
            return {"err": "PatternError"}
        except re.error:
            return {"err": "re.error"}
        except (TypeError, ValueError, OverflowError, KeyError, IndexError, AssertionError) as ex:
            return {"err": exc_name(ex)}
    if vi.githash or vi.hexhash or vi.bid is None:
        return {"err": "unsupported-by-model"}
    return {"ok": vinfo_json(vi)}


def format_vinfo(vj, pattern):
    from bumpver import v2version
    try:
        return {"ok": v2version.format_version(vinfo_from_json(vj), pattern)}
    except (ValueError, KeyError, IndexError, TypeError) as ex:
        return {"err": exc_name(ex)}


def pattern_fields(pattern):
    from bumpver import v2version
    try:
        return {"ok": v2version._parse_pattern_fields(pattern)}
    except (ValueError, KeyError, IndexError) as ex:
        return {"err": exc_name(ex)}


def incr(version_str, pattern, flags, date, today):
    from bumpver import v2version, version
    import re
    _quiet()
    with _Today(today):
        try:
            r = v2version.incr(version_str, pattern, major=flags["major"], minor=flags["minor"], patch=flags["patch"],
                               tag=flags["tag"], tag_num=flags["tag_num"], pin_increments=flags["pin_increments"],
                               pin_date=flags["pin_date"], maybe_date=dt.date(*date))
        except re.error:
            return {"err": "re.error"}
        except (TypeError, ValueError, OverflowError, KeyError, IndexError, AssertionError) as ex:
            return {"err": exc_name(ex)}
    return {"ok": r}


# ---- rewriting ---------------------------------------------------------------

def _compile_pats(pairs):
    from bumpver import v2patterns
    return [v2patterns.compile_pattern(vp, raw) for vp, raw in pairs]


def rewrite_content(pairs, vj, content):
    from bumpver import v2rewrite, rewrite
    import re
    _quiet()
    try:
        pats = _compile_pats(pairs)
        rfd = v2rewrite.rfd_from_content(pats, vinfo_from_json(vj), content)
        return {"ok": rfd.line_sep.join(rfd.new_lines)}
    except rewrite.NoPatternMatch:
        return {"err": "NoPatternMatch"}
    except re.error:
        return {"unsupported": 1}
    except (ValueError, KeyError, IndexError, TypeError) as ex:
        return {"err": exc_name(ex)}


def rewrite_files_in(dirpath, file_patterns, vj):
    """v2rewrite.rewrite_files on real files under dirpath; file_patterns: [[path, [[vp, raw], …]], …]"""
    from bumpver import v2rewrite, rewrite
    import collections, re
    _quiet()
    old = os.getcwd()
    os.chdir(dirpath)
    try:
        fp = collections.OrderedDict()
        for path, pairs in file_patterns:
            fp.setdefault(path, []).extend(_compile_pats(pairs))
        try:
            v2rewrite.rewrite_files(fp, vinfo_from_json(vj))
            return "ok"
        except rewrite.NoPatternMatch:
            return "NoPatternMatch"
        except OSError:
            return "OSError"
        except re.error:
            return "unsupported"
        except (ValueError, KeyError, IndexError, TypeError) as ex:
            return exc_name(ex)
    finally:
        os.chdir(old)


# ---- CLI decision logic (C01, C09) ---------------------------------------------

class _Tags:
    """patches vcs.get_tags to serve canned tag lists (global / branch)"""

    def __init__(self, global_tags, branch_tags=None):
        self.g = list(global_tags)
        self.b = list(branch_tags if branch_tags is not None else global_tags)

    def __enter__(self):
        from bumpver import vcs, config
        self._vcs = vcs
        self._orig = vcs.get_tags
        vcs.get_tags = lambda fetch, scope: list(self.b) if scope == config.TagScope.BRANCH else list(self.g)

    def __exit__(self, *a):
        self._vcs.get_tags = self._orig


def _cfg(pattern, cfgv, scope):
    from bumpver import config
    return config.Config(current_version=cfgv, version_pattern=pattern, pep440_version="", commit_message="", tag_message="",
                         tag_scope=config.TagScope(scope), pre_commit_hook="", post_commit_hook="", commit=False, tag=False,
                         push=False, is_new_pattern=("{" not in pattern and "}" not in pattern), file_patterns={})


def _guard(fn):
    import re
    _quiet()
    try:
        return fn()
    except re.error:
        return {"unsupported": 1}
    except SystemExit as ex:
        return {"err": "SystemExit(%s)" % ex.code}
    except (TypeError, ValueError, OverflowError, KeyError, IndexError, AssertionError) as ex:
        return {"err": exc_name(ex)}


def latest_tag(pattern, tags, today):
    from bumpver import cli
    with _Today(today), _Tags(tags):
        return _guard(lambda: {"ok": cli.get_latest_vcs_version_tag(_cfg(pattern, "0", "global"), fetch=False)})


def start_version(scope, pattern, cfgv, tags, today):
    from bumpver import cli
    with _Today(today), _Tags(tags, tags):
        return _guard(lambda: {"ok": cli._update_cfg_from_vcs(_cfg(pattern, cfgv, scope), fetch=False).current_version})


def gate(pattern, old, new, unique, tags, today):
    from bumpver import cli
    with _Today(today), _Tags(tags):
        return _guard(lambda: {"ok": bool(cli._is_valid_version(pattern, old, new, unique=unique))})


def cli_test(version_str, pattern, flags, date_given, date, today, set_version):
    import sandbox
    args = ["test", version_str, pattern]
    for k in ("major", "minor", "patch"):
        if flags[k]:
            args.append("--" + k)
    if flags["tag"] is not None:
        args += ["--tag", flags["tag"]]
    if flags["tag_num"]:
        args.append("--tag-num")
    if flags["pin_increments"]:
        args.append("--pin-increments")
    if flags["pin_date"]:
        args.append("--pin-date")
    if date_given:
        args += ["--date", "%04d-%02d-%02d" % tuple(date)]
    if set_version is not None:
        args += ["--set-version", set_version]
    code, out, exc = sandbox.run_cli(args, "/", today=dt.date(*today))
    if exc == "other:error" or (exc and "error" in exc):
        return {"unsupported": 1}
    if code != 0:
        return {"exit": 1}
    new = pep = None
    for line in out.split("\n"):
        if line.startswith("New Version: "):
            new = line[len("New Version: "):]
        elif line.startswith("PEP440     : "):
            pep = line[len("PEP440     : "):]
    return {"exit": 0, "new": new, "pep440": pep if pep is not None else new}
