"""The ONE place that names bumpver's functions.  Everything is imported from
/repo's working tree (the /venv install is editable -> /repo/src); set
VERIF_REPO to point somewhere else (scratch worktrees for seeded changes)."""
import os, sys

REPO = os.environ.get("VERIF_REPO", "/repo")
_src = os.path.join(REPO, "src")
if _src not in sys.path:
    sys.path.insert(0, _src)

import datetime as dt


def exc_name(ex):
    n = type(ex).__name__
    if n in ("PatternError", "NoPatternMatch", "ValueError", "TypeError", "OverflowError", "KeyError",
             "IndexError", "AssertionError", "OSError", "FileNotFoundError", "AttributeError"):
        return n
    if isinstance(ex, SystemExit):
        return "SystemExit(%s)" % (ex.code,)
    return "other:" + n


# ---- C17 ---------------------------------------------------------------

def next_id(s):
    import lexid
    try:
        return {"ok": lexid.next_id(s)}
    except OverflowError:
        return {"err": "OverflowError"}


def bump_bid(s):
    """BUILD step of v2version._incr_numeric, observed through the real function."""
    from bumpver import v2version, version
    vinfo = v2version.parse_field_values_to_vinfo({"bid": s})
    try:
        new = v2version._incr_numeric("BUILD", vinfo, vinfo, major=False, minor=False, patch=False,
                                      tag=None, tag_num=False, pin_increments=True)
        return {"ok": new.bid}
    except OverflowError:
        return {"err": "OverflowError"}


# ---- C12 / C11: VCS command layer ----------------------------------------

class _Capture:
    """patches vcs.sp.check_output; records argv, returns canned output"""

    def __init__(self, output=b""):
        self.calls = []
        self.output = output

    def __enter__(self):
        from bumpver import vcs
        import subprocess as _sp
        self._vcs = vcs
        self._orig = {n: getattr(vcs.sp, n) for n in ("check_output", "run", "call", "check_call", "Popen")}

        def fake(cmd_parts, **kw):
            self.calls.append(list(cmd_parts))
            return self.output

        def fake_run(cmd_parts, **kw):
            # whichever subprocess entry point the code uses: nothing is ever executed for real by this adapter
            self.calls.append(list(cmd_parts))
            return _sp.CompletedProcess(cmd_parts, 0, stdout=self.output, stderr=b"")

        def fake_call(cmd_parts, **kw):
            self.calls.append(list(cmd_parts))
            return 0

        class FakePopen(object):
            def __init__(inner, cmd_parts, **kw):
                self.calls.append(list(cmd_parts))
                inner.returncode = 0
                inner.stdout = None
                inner.stderr = None

            def communicate(inner, *a, **k):
                return self.output, b""

            def wait(inner, *a, **k):
                return 0

            def __enter__(inner):
                return inner

            def __exit__(inner, *a):
                return False
        vcs.sp.check_output = fake
        vcs.sp.run = fake_run
        vcs.sp.call = fake_call
        vcs.sp.check_call = fake_call
        vcs.sp.Popen = FakePopen
        return self

    def __exit__(self, *a):
        for n, f in self._orig.items():
            setattr(self._vcs.sp, n, f)


def vcs_argv(vcs_name, cmd, kw):
    from bumpver import vcs
    api = vcs.VCSAPI(vcs_name)
    with _Capture() as cap:
        try:
            api(cmd, **kw)
        except (ValueError, KeyError, IndexError) as ex:
            return {"err": exc_name(ex)}
    if not cap.calls:
        return {"err": "no-subprocess-call"}
    return {"ok": cap.calls[0]}


def py_format(tmpl, kw):
    try:
        return {"ok": tmpl.format(**kw)}
    except (ValueError, KeyError, IndexError, AttributeError) as ex:
        return {"err": exc_name(ex)}


def shlex_split(s):
    import shlex
    try:
        return {"ok": shlex.split(s)}
    except ValueError:
        return {"err": "ValueError"}


def sub_msg(m):
    from bumpver import cli
    return {"ok": cli._sub_msg_template(m)}


def dirty_verdict(status_text, files, allow):
    from bumpver import vcs
    api = vcs.VCSAPI("git")
    with _Capture(status_text.encode("utf-8")):
        try:
            vcs.assert_not_dirty(api, set(files), allow)
            return {"ok": "proceed"}
        except SystemExit:
            return {"ok": "abort"}
        except ValueError:
            return {"err": "ValueError"}


# ---- v2 patterns / versions ------------------------------------------------

def _match_json(m):
    if m is None:
        return {"nomatch": 1}
    return {"span": [m.start(), m.end()], "groups": {k: v for k, v in m.groupdict().items() if v is not None}}


def compile_str(pattern):
    from bumpver import v2patterns
    import re
    try:
        return {"ok": v2patterns._compile_pattern_re(pattern).pattern}
    except re.error:
        return {"err": "re.error"}


def compile_search(pattern, line, mode="search"):
    from bumpver import v2patterns
    import re
    try:
        rx = v2patterns._compile_pattern_re(pattern)
    except re.error:
        return {"err": "re.error"}
    return _match_json(rx.search(line) if mode == "search" else rx.match(line))


def re_search(src, line):
    import re
    try:
        return _match_json(re.compile(src).search(line))
    except re.error:
        return {"err": "re.error"}


def normalize(version_pattern, raw_pattern):
    from bumpver import v2patterns
    try:
        return {"ok": v2patterns.normalize_pattern(version_pattern, raw_pattern)}
    except IndexError:
        return {"err": "IndexError"}


def to_pep440_pattern(version_pattern):
    from bumpver import v2patterns
    try:
        return {"ok": v2patterns._convert_to_pep440(version_pattern)}
    except IndexError:
        return {"err": "IndexError"}


def make_vinfo(state):
    """state: dict with optional 'date' [y,m,d] (all nine calendar fields from that date) and
    major minor patch bid tag num inc0 inc1"""
    from bumpver import version, v2version
    kw = dict(year_y=None, year_g=None, quarter=None, month=None, dom=None, doy=None, week_w=None, week_u=None, week_v=None,
              major=0, minor=0, patch=0, bid="1000", tag="final", pytag="", githash="", hexhash="", num=0, inc0=0, inc1=1)
    if state.get("date"):
        kw.update(v2version.cal_info(dt.date(*state["date"]))._asdict())
    for k in ("major", "minor", "patch", "bid", "tag", "num", "inc0", "inc1"):
        if k in state:
            kw[k] = state[k]
    kw["pytag"] = version.PEP440_TAG_BY_TAG[kw["tag"]]
    return version.V2VersionInfo(**kw)


def format_version(state, pattern):
    from bumpver import v2version
    try:
        return {"ok": v2version.format_version(make_vinfo(state), pattern)}
    except (ValueError, KeyError, IndexError) as ex:
        return {"err": exc_name(ex)}


CAL_FIELDS = ["year_y", "year_g", "quarter", "month", "dom", "doy", "week_w", "week_u", "week_v"]


def vinfo_json(vi):
    return {"cal": [getattr(vi, f) for f in CAL_FIELDS], "major": vi.major, "minor": vi.minor, "patch": vi.patch,
            "bid": vi.bid, "tag": vi.tag, "pytag": vi.pytag, "num": vi.num, "inc0": vi.inc0, "inc1": vi.inc1}


def vinfo_from_json(j):
    from bumpver import version
    kw = dict(zip(CAL_FIELDS, j["cal"]))
    kw.update(major=j["major"], minor=j["minor"], patch=j["patch"], bid=j["bid"], tag=j["tag"], pytag=j["pytag"],
              githash="", hexhash="", num=j["num"], inc0=j["inc0"], inc1=j["inc1"])
    return version.V2VersionInfo(**kw)


class _Today:
    def __init__(self, ymd):
        self.ymd = ymd

    def __enter__(self):
        from bumpver import version
        self._v = version
        self._old = version.TODAY
        version.TODAY = dt.date(*self.ymd)

    def __exit__(self, *a):
        self._v.TODAY = self._old


def _quiet():
    import logging
    logging.disable(logging.CRITICAL)


def parse_version(version_str, pattern, today):
    from bumpver import v2version, version
    import re
    _quiet()
    with _Today(today):
        try:
            vi = v2version.parse_version_info(version_str, pattern)
        except version.PatternError:
            return {"err": "PatternError"}
        except re.error:
            return {"err": "re.error"}
        except (TypeError, ValueError, OverflowError, KeyError, IndexError, AssertionError) as ex:
            return {"err": exc_name(ex)}
    if vi.githash or vi.hexhash or vi.bid is None:
        return {"err": "unsupported-by-model"}
    return {"ok": vinfo_json(vi)}


def format_vinfo(vj, pattern):
    from bumpver import v2version
    try:
        return {"ok": v2version.format_version(vinfo_from_json(vj), pattern)}
    except (ValueError, KeyError, IndexError, TypeError) as ex:
        return {"err": exc_name(ex)}


def pattern_fields(pattern):
    from bumpver import v2version
    try:
        return {"ok": v2version._parse_pattern_fields(pattern)}
    except (ValueError, KeyError, IndexError) as ex:
        return {"err": exc_name(ex)}


def incr(version_str, pattern, flags, date, today):
    from bumpver import v2version, version
    import re
    _quiet()
    with _Today(today):
        try:
            r = v2version.incr(version_str, pattern, major=flags["major"], minor=flags["minor"], patch=flags["patch"],
                               tag=flags["tag"], tag_num=flags["tag_num"], pin_increments=flags["pin_increments"],
                               pin_date=flags["pin_date"], maybe_date=dt.date(*date))
        except re.error:
            return {"err": "re.error"}
        except (TypeError, ValueError, OverflowError, KeyError, IndexError, AssertionError) as ex:
            return {"err": exc_name(ex)}
    return {"ok": r}


# ---- rewriting ---------------------------------------------------------------

def _compile_pats(pairs):
    from bumpver import v2patterns
    return [v2patterns.compile_pattern(vp, raw) for vp, raw in pairs]


def rewrite_content(pairs, vj, content):
    from bumpver import v2rewrite, rewrite
    import re
    _quiet()
    try:
        pats = _compile_pats(pairs)
        rfd = v2rewrite.rfd_from_content(pats, vinfo_from_json(vj), content)
        return {"ok": rfd.line_sep.join(rfd.new_lines)}
    except rewrite.NoPatternMatch:
        return {"err": "NoPatternMatch"}
    except re.error:
        return {"unsupported": 1}
    except (ValueError, KeyError, IndexError, TypeError) as ex:
        return {"err": exc_name(ex)}


def rewrite_files_in(dirpath, file_patterns, vj):
    """v2rewrite.rewrite_files on real files under dirpath; file_patterns: [[path, [[vp, raw], …]], …]"""
    from bumpver import v2rewrite, rewrite
    import collections, re
    _quiet()
    old = os.getcwd()
    os.chdir(dirpath)
    try:
        fp = collections.OrderedDict()
        for path, pairs in file_patterns:
            fp.setdefault(path, []).extend(_compile_pats(pairs))
        try:
            v2rewrite.rewrite_files(fp, vinfo_from_json(vj))
            return "ok"
        except rewrite.NoPatternMatch:
            return "NoPatternMatch"
        except OSError:
            return "OSError"
        except re.error:
            return "unsupported"
        except (ValueError, KeyError, IndexError, TypeError) as ex:
            return exc_name(ex)
    finally:
        os.chdir(old)


# ---- CLI decision logic (C01, C09) ---------------------------------------------

class _Tags:
    """patches vcs.get_tags to serve canned tag lists (global / branch)"""

    def __init__(self, global_tags, branch_tags=None):
        self.g = list(global_tags)
        self.b = list(branch_tags if branch_tags is not None else global_tags)

    def __enter__(self):
        from bumpver import vcs, config
        self._vcs = vcs
        self._orig = vcs.get_tags
        vcs.get_tags = lambda fetch, scope: list(self.b) if scope == config.TagScope.BRANCH else list(self.g)

    def __exit__(self, *a):
        self._vcs.get_tags = self._orig


def _cfg(pattern, cfgv, scope):
    from bumpver import config
    return config.Config(current_version=cfgv, version_pattern=pattern, pep440_version="", commit_message="", tag_message="",
                         tag_scope=config.TagScope(scope), pre_commit_hook="", post_commit_hook="", commit=False, tag=False,
                         push=False, is_new_pattern=("{" not in pattern and "}" not in pattern), file_patterns={})


def _guard(fn):
    import re
    _quiet()
    try:
        return fn()
    except re.error:
        return {"unsupported": 1}
    except SystemExit as ex:
        return {"err": "SystemExit(%s)" % ex.code}
    except (TypeError, ValueError, OverflowError, KeyError, IndexError, AssertionError) as ex:
        return {"err": exc_name(ex)}


def latest_tag(pattern, tags, today):
    from bumpver import cli
    with _Today(today), _Tags(tags):
        return _guard(lambda: {"ok": cli.get_latest_vcs_version_tag(_cfg(pattern, "0", "global"), fetch=False)})


def start_version(scope, pattern, cfgv, tags, today):
    from bumpver import cli
    with _Today(today), _Tags(tags, tags):
        return _guard(lambda: {"ok": cli._update_cfg_from_vcs(_cfg(pattern, cfgv, scope), fetch=False).current_version})


def gate(pattern, old, new, unique, tags, today):
    from bumpver import cli
    with _Today(today), _Tags(tags):
        return _guard(lambda: {"ok": bool(cli._is_valid_version(pattern, old, new, unique=unique))})


def cli_test(version_str, pattern, flags, date_given, date, today, set_version):
    import sandbox
    args = ["test", version_str, pattern]
    for k in ("major", "minor", "patch"):
        if flags[k]:
            args.append("--" + k)
    if flags["tag"] is not None:
        args += ["--tag", flags["tag"]]
    if flags["tag_num"]:
        args.append("--tag-num")
    if flags["pin_increments"]:
        args.append("--pin-increments")
    if flags["pin_date"]:
        args.append("--pin-date")
    if date_given:
        args += ["--date", "%04d-%02d-%02d" % tuple(date)]
    if set_version is not None:
        args += ["--set-version", set_version]
    code, out, exc = sandbox.run_cli(args, "/", today=dt.date(*today))
    if exc == "other:error" or (exc and "error" in exc):
        return {"unsupported": 1}
    if code != 0:
        return {"exit": 1}
    new = pep = None
    for line in out.split("\n"):
        if line.startswith("New Version: "):
            new = line[len("New Version: "):]
        elif line.startswith("PEP440     : "):
            pep = line[len("PEP440     : "):]
    return {"exit": 0, "new": new, "pep440": pep if pep is not None else new}


# ---- configuration layer (C18) and `bumpver init` (C19) ---------------------------

class _Cwd:
    def __init__(self, d):
        self.d = d

    def __enter__(self):
        self.old = os.getcwd()
        os.chdir(self.d)

    def __exit__(self, *a):
        os.chdir(self.old)


def ini_raw(text):
    """what bumpver's configparser subclass hands over: [[section, [[option, value]…]]…]"""
    import io, configparser
    from bumpver import config
    p = config._ConfigParser()
    try:
        p.read_file(io.StringIO(text))
        # reading the values is part of what the parser does (a parser with interpolation fails HERE, not in read_file)
        return {"sections": [[s, [[k, v] for k, v in p.items(s)]] for s in p.sections()]}
    except configparser.Error as ex:
        return {"err": "configparser." + type(ex).__name__}


def _toml_section(tbl):
    if not isinstance(tbl, dict):
        return {"unsupported": "table is %s" % type(tbl).__name__}
    opts, fp = [], None
    for k, v in tbl.items():
        if k == "file_patterns":
            if not isinstance(v, dict) or not all(isinstance(ps, list) and all(isinstance(p, str) for p in ps) for ps in v.values()):
                return {"unsupported": "file_patterns is not a table of string lists"}
            fp = [[f, list(ps)] for f, ps in v.items()]
        elif isinstance(v, (str, bool)):
            opts.append([k, v])
        else:
            return {"unsupported": "value of %s is %s" % (k, type(v).__name__)}
    return {"opts": opts, "file_patterns": fp}


def toml_raw(text):
    """toml.load reduced to the three tables bumpver looks at"""
    import io, toml
    try:
        full = toml.load(io.StringIO(text))
    except Exception as ex:  # toml raises TomlDecodeError and, on odd input, IndexError/ValueError
        return {"err": "toml." + type(ex).__name__}
    doc = {"tool_bumpver": None, "bumpver": None, "pycalver": None}
    if "tool" in full and "bumpver" in full["tool"]:
        doc["tool_bumpver"] = _toml_section(full["tool"]["bumpver"])
    if "bumpver" in full:
        doc["bumpver"] = _toml_section(full["bumpver"])
    if "pycalver" in full:
        doc["pycalver"] = _toml_section(full["pycalver"])
    for v in doc.values():
        if isinstance(v, dict) and "unsupported" in v:
            return {"unsupported": v["unsupported"]}
    return {"doc": doc}


_CFG_ERR_TAGS = [
    ("Missing [bumpver] section", "missingSection"),
    ("Missing version_pattern", "missingPattern"),
    ("Invalid type for version_pattern", "patternType"),
    ("Missing 'current_version'", "missingVersion"),
    ("Invalid type for current_version", "versionType"),
    ("Could not parse 'current_version'", "noVersionLine"),
    ("Invalid configuration. current_version=", "invalidVersion"),
    ("Invalid character(s)", "invalidVersion"),
    ("Invalid week number pattern", "invalidVersion"),
    ("Character not valid in this position", "bracketPattern"),
    ("is not a valid TagScope", "tagScope"),
    ("commit=True required if tag=True", "tagRequiresCommit"),
    ("commit=True required if push=True", "pushRequiresCommit"),
    ("Invalid value for pre_commit_hook", "preHookMissing"),
    ("Invalid value for post_commit_hook", "postHookMissing"),
]


def _cfg_err(ex):
    import re
    if isinstance(ex, re.error):
        return {"err": "re.error", "what": "reError"}
    if isinstance(ex, AttributeError):
        return {"err": "AttributeError", "what": "notAString"}
    msg = str(ex)
    for frag, tag in _CFG_ERR_TAGS:
        if frag in msg:
            return {"err": exc_name(ex), "what": tag}
    return {"err": exc_name(ex), "what": "other: " + msg[:120]}


class _RawPatterns:
    """`Pattern.raw_pattern` holds the NORMALISED pattern; to observe which raw patterns reach the
    compiler (and in which grouping) the compile functions config.py calls are wrapped: the real
    function runs (errors surface), the returned Pattern carries the raw text."""

    def __enter__(self):
        from bumpver import config, patterns
        self.config = config
        self.saved = []
        for mod in (config.v1patterns, config.v2patterns):
            real_one, real_many = mod.compile_pattern, mod.compile_patterns

            def one(vp, raw=None, _real=real_one):
                p = _real(vp, raw)
                return patterns.Pattern(vp, vp if raw is None else raw, p.regexp)

            def many(vp, raws, _one=one):
                return [_one(vp, r) for r in raws]
            self.saved.append((mod, real_one, real_many))
            mod.compile_pattern, mod.compile_patterns = one, many
        return self

    def __exit__(self, *a):
        for mod, o, m in self.saved:
            mod.compile_pattern, mod.compile_patterns = o, m


def _effective_json(cfg, raw_patterns):
    out = {
        "current_version": cfg.current_version, "version_pattern": cfg.version_pattern,
        "commit_message": cfg.commit_message, "tag_message": cfg.tag_message,
        "tag_scope": cfg.tag_scope.value, "pre_commit_hook": cfg.pre_commit_hook,
        "post_commit_hook": cfg.post_commit_hook, "commit": bool(cfg.commit), "tag": bool(cfg.tag),
        "push": bool(cfg.push), "is_new_pattern": bool(cfg.is_new_pattern),
        "file_patterns": [[f, [p.raw_pattern for p in ps]] for f, ps in cfg.file_patterns.items()],
    }
    if not raw_patterns:
        out["pep440_version"] = cfg.pep440_version
        out["regexps"] = [[f, [p.regexp.pattern for p in ps]] for f, ps in cfg.file_patterns.items()]
        out["types"] = [type(cfg.commit).__name__, type(cfg.tag).__name__, type(cfg.push).__name__]
    return out


def cfg_post(fmt, text, cwd, self_rel_path=None):
    """the real reader after its parser: `_parse_cfg`/`_parse_toml` on `text` (or, with
    self_rel_path, `_parse_raw_config` on that file of the project `cwd`), then `_parse_config`.
    File patterns are reported raw (see _RawPatterns)."""
    import io, re
    from bumpver import config, pathlib as pl
    _quiet()
    with _Cwd(cwd), _RawPatterns():
        try:
            if self_rel_path is None:
                raw = (config._parse_cfg if fmt == "cfg" else config._parse_toml)(io.StringIO(text))
            else:
                ctx = config.ProjectContext(pl.Path("."), pl.Path.cwd() / self_rel_path, self_rel_path, fmt, None)
                raw = config._parse_raw_config(ctx)
            cfg = config._parse_config(raw)
        except Exception as ex:  # whatever the real reader raises is its observable outcome, never a crash of the check
            return _cfg_err(ex)
    return {"ok": _effective_json(cfg, True)}


def cfg_validate(current_version, version_pattern, is_new):
    """does `_validate_version_with_pattern` return?"""
    from bumpver import config
    import re
    _quiet()
    try:
        config._validate_version_with_pattern(current_version, version_pattern, is_new)
        return True
    except (ValueError, TypeError, KeyError, IndexError, re.error):
        return False


def cfg_compile_ok(is_new, version_pattern, raw_pattern):
    from bumpver import v1patterns, v2patterns
    import re
    _quiet()
    try:
        (v2patterns if is_new else v1patterns).compile_pattern(version_pattern, raw_pattern)
        return True
    except re.error:
        return False


def glob_in(cwd, g):
    from bumpver import pathlib as pl
    with _Cwd(cwd):
        try:
            return [str(p) for p in pl.Path().glob(g)]
        except (ValueError, NotImplementedError, IndexError) as ex:
            return {"err": exc_name(ex)}


def path_exists_in(cwd, p):
    from bumpver import pathlib as pl
    with _Cwd(cwd):
        return pl.Path(p).exists()


def cfg_init_in(cwd):
    """`config.init(".")` in the project: (config file, effective settings or None, exception)"""
    import re
    from bumpver import config
    _quiet()
    with _Cwd(cwd):
        try:
            ctx, cfg = config.init(project_path=".")
        except Exception as ex:  # observable outcome of the real code, never a crash of the check
            return {"crash": exc_name(ex)}
    if cfg is None:
        return {"file": ctx.config_rel_path, "cfg": None}
    return {"file": ctx.config_rel_path, "cfg": _effective_json(cfg, False)}


def cur_version_pattern(text, current_version, version_pattern):
    from bumpver import config
    try:
        return {"ok": config._parse_current_version_default_pattern(
            {"current_version": current_version, "version_pattern": version_pattern}, text)}
    except ValueError:
        return {"err": "ValueError"}


def init_pick(cwd):
    from bumpver import config, pathlib as pl
    with _Cwd(cwd):
        try:
            return {"ok": str(config._pick_config_filepath(pl.Path(".")))}
        except Exception as ex:            # noqa: BLE001  (an outcome of the real code, never a crash of the check)
            return {"err": exc_name(ex), "ok": None}


def init_text(cwd):
    from bumpver import config
    with _Cwd(cwd):
        try:
            return {"ok": config.default_config(config.init_project_ctx("."))}
        except Exception as ex:            # noqa: BLE001
            return {"err": exc_name(ex)}


def init_parses(cwd):
    """what cli.init asks before writing: does the picked file hold a usable configuration?"""
    from bumpver import config
    _quiet()
    with _Cwd(cwd):
        try:
            ctx, cfg = config.init(project_path=".", cfg_missing_ok=True)
        except Exception:                  # noqa: BLE001
            return None
    return cfg is not None


def this_year():
    from bumpver import utils
    return utils.now().year


# ---- legacy (v1) engine (C20) --------------------------------------------------------

V1_CAL_FIELDS = ["year", "quarter", "month", "dom", "doy", "iso_week", "us_week"]


def v1_info_json(vi):
    return {"cal": [getattr(vi, f) for f in V1_CAL_FIELDS], "major": vi.major, "minor": vi.minor, "patch": vi.patch,
            "bid": vi.bid, "tag": vi.tag}


def v1_info_from_json(j):
    from bumpver import version
    kw = dict(zip(V1_CAL_FIELDS, j["cal"]))
    kw.update(major=j["major"], minor=j["minor"], patch=j["patch"], bid=j["bid"], tag=j["tag"])
    return version.V1VersionInfo(**kw)


def v1_make_info(date, major=0, minor=0, patch=0, bid="0001", tag="final"):
    """a V1VersionInfo with all calendar fields of `date` [y, m, d] (as `incr` builds them)"""
    from bumpver import version, v1version
    kw = v1version.cal_info(dt.date(*date))._asdict()
    kw.update(major=major, minor=minor, patch=patch, bid=bid, tag=tag)
    return version.V1VersionInfo(**kw)


def _v1_err(ex):
    import re
    if isinstance(ex, re.error):
        return {"err": "re.error"}
    if isinstance(ex, NotImplementedError):
        return {"err": "NotImplementedError"}
    return {"err": exc_name(ex)}


_V1_EXC = (TypeError, ValueError, OverflowError, KeyError, IndexError, AssertionError, NotImplementedError, AttributeError)


def v1_compile_str(pattern, version_pattern=None):
    from bumpver import v1patterns
    import re
    try:
        n = v1patterns._normalized_pattern(version_pattern if version_pattern is not None else pattern, pattern)
        return {"ok": v1patterns._compile_pattern_re(n).pattern}
    except re.error as ex:
        return _v1_err(ex)


def v1_compile_search(pattern, line, version_pattern=None):
    from bumpver import v1patterns
    import re
    _quiet()
    try:
        n = v1patterns._normalized_pattern(version_pattern if version_pattern is not None else pattern, pattern)
        rx = v1patterns._compile_pattern_re(n)
    except re.error as ex:
        return _v1_err(ex)
    m = rx.search(line)
    if m is None:
        return {"nomatch": 1}
    # groups with non-empty text only (see Driver/V1.lean v1MatchJson)
    return {"span": [m.start(), m.end()], "groups": {k: v for k, v in m.groupdict().items() if v}}


def v1_parse(version_str, pattern):
    from bumpver import v1version, version
    import re
    _quiet()
    try:
        vi = v1version.parse_version_info(version_str, pattern)
    except version.PatternError:
        return {"err": "PatternError"}
    except (re.error,) + _V1_EXC as ex:
        return _v1_err(ex)
    if vi.bid is None:
        return {"err": "unsupported-by-model"}
    return {"ok": v1_info_json(vi)}


def v1_rewrite_content(pairs, vj, content):
    """the legacy rewrite path on one file's content: compile_pattern per (version_pattern, raw_pattern) pair, rfd_from_content, re-join"""
    from bumpver import v1patterns, v1rewrite, rewrite
    import re
    _quiet()
    try:
        pats = [v1patterns.compile_pattern(vp, raw) for vp, raw in pairs]
    except re.error:
        return {"unsupported": 1}           # the model's patterns carry no compiled regex: a re.error at compile time is outside it
    try:
        rfd = v1rewrite.rfd_from_content(pats, v1_info_from_json(vj), content)
    except rewrite.NoPatternMatch:
        return {"err": "NoPatternMatch"}
    except _V1_EXC as ex:
        return _v1_err(ex)
    return {"ok": rfd.line_sep.join(rfd.new_lines)}


def v1_format(vj, pattern):
    from bumpver import v1version
    try:
        return {"ok": v1version.format_version(v1_info_from_json(vj), pattern)}
    except _V1_EXC as ex:
        return _v1_err(ex)


def v1_incr(version_str, pattern, flags, date, today):
    from bumpver import v1version, version
    import re
    _quiet()
    with _Today(today):
        try:
            r = v1version.incr(version_str, pattern, major=flags["major"], minor=flags["minor"], patch=flags["patch"],
                               tag=flags["tag"], tag_num=flags["tag_num"], pin_date=flags["pin_date"],
                               maybe_date=dt.date(*date))
        except (re.error,) + _V1_EXC as ex:
            return _v1_err(ex)
    return {"ok": r}


def v1_gate(pattern, old, new):
    from bumpver import cli
    import re
    _quiet()
    try:
        return {"ok": bool(cli._is_valid_version(pattern, old, new, unique=False))}
    except (re.error,) + _V1_EXC as ex:
        return _v1_err(ex)


def dispatch(pattern):
    """which engine do `bumpver test`/`update` (incr_dispatch), the gate (_is_valid_version) and the config loader
    (_parse_config) pick for this pattern?  Observed by spying on the four entry points while the real functions run."""
    from bumpver import cli, config, v1version, v2version
    _quiet()
    seen = {"incr": None, "gate": None, "config": None}
    orig = (v1version.incr, v2version.incr, v1version.parse_version_info, v2version.parse_version_info)
    where = ["incr"]

    class _Stop(Exception):
        pass

    def spy(engine):
        def f(*a, **k):
            seen[where[0]] = engine
            raise _Stop()
        return f
    v1version.incr, v2version.incr = spy("v1"), spy("v2")
    v1version.parse_version_info, v2version.parse_version_info = spy("v1"), spy("v2")
    try:
        for w, call in (("incr", lambda: cli.incr_dispatch("0", pattern)),
                        ("gate", lambda: cli._is_valid_version(pattern, "0", "1")),
                        ("config", lambda: config._parse_config({"current_version": "0", "version_pattern": pattern, "commit": False,
                                                                  "tag": False, "push": False, "file_patterns": {}}))):
            where[0] = w
            try:
                call()
            except _Stop:
                pass
    finally:
        v1version.incr, v2version.incr, v1version.parse_version_info, v2version.parse_version_info = orig
    return {"has_v1_part": seen["incr"] == "v1", "is_new_pattern": seen["gate"] == "v2", "engines": seen}


def v1_date_of_doy(y, doy):
    d = dt.date(y, 1, 1) + dt.timedelta(days=doy - 1)
    return [d.year, d.month, d.day]


def toml_encoding_ok(enc, s):
    """does the third-party toml parser read the encoded string `enc` back as `s` (as a scalar, in an inline array and in
    a multi-line array)?  toml 0.10.2 mis-reads some valid strings (`"\\""` -> '', `[","]` -> ['', '']); the generators only
    use encodings that survive."""
    import toml
    try:
        return (toml.loads("k = " + enc + "\n")["k"] == s
                and toml.loads("k = [" + enc + ", \"z\"]\n")["k"] == [s, "z"]
                and toml.loads("k = [\n    " + enc + ",\n    " + enc + ",\n]\n")["k"] == [s, s])
    except Exception:
        return False
