"""The ONE place that names bumpver's functions.  Everything is imported from
/repo's working tree (the /venv install is editable -> /repo/src); set
VERIF_REPO to point somewhere else (scratch worktrees for seeded changes)."""
import os, sys

REPO = os.environ.get("VERIF_REPO", "/repo")
_src = os.path.join(REPO, "src")
if _src not in sys.path:
    sys.path.insert(0, _src)

import datetime as dt


def exc_name(ex):
    n = type(ex).__name__
    if n in ("PatternError", "NoPatternMatch", "ValueError", "TypeError", "OverflowError", "KeyError",
             "IndexError", "AssertionError", "OSError", "FileNotFoundError", "AttributeError"):
        return n
    if isinstance(ex, SystemExit):
        return "SystemExit(%s)" % (ex.code,)
    return "other:" + n


# ---- C17 ---------------------------------------------------------------

def next_id(s):
    import lexid
    try:
        return {"ok": lexid.next_id(s)}
    except OverflowError:
        return {"err": "OverflowError"}


def bump_bid(s):
    """BUILD step of v2version._incr_numeric, observed through the real function."""
    from bumpver import v2version, version
    vinfo = v2version.parse_field_values_to_vinfo({"bid": s})
    try:
        new = v2version._incr_numeric("BUILD", vinfo, vinfo, major=False, minor=False, patch=False,
                                      tag=None, tag_num=False, pin_increments=True)
        return {"ok": new.bid}
    except OverflowError:
        return {"err": "OverflowError"}


# ---- C12 / C11: VCS command layer ----------------------------------------

class _Capture:
    """patches vcs.sp.check_output; records argv, returns canned output"""

    def __init__(self, output=b""):
        self.calls = []
        self.output = output

    def __enter__(self):
        from bumpver import vcs
        self._vcs = vcs
        self._orig = vcs.sp.check_output

        def fake(cmd_parts, **kw):
            self.calls.append(list(cmd_parts))
            return self.output
        vcs.sp.check_output = fake
        return self

    def __exit__(self, *a):
        self._vcs.sp.check_output = self._orig


def vcs_argv(vcs_name, cmd, kw):
    from bumpver import vcs
    api = vcs.VCSAPI(vcs_name)
    with _Capture() as cap:
        try:
            api(cmd, **kw)
        except (ValueError, KeyError, IndexError) as ex:
            return {"err": exc_name(ex)}
    return {"ok": cap.calls[0]}


def py_format(tmpl, kw):
    try:
        return {"ok": tmpl.format(**kw)}
    except (ValueError, KeyError, IndexError, AttributeError) as ex:
        return {"err": exc_name(ex)}


def shlex_split(s):
    import shlex
    try:
        return {"ok": shlex.split(s)}
    except ValueError:
        return {"err": "ValueError"}


def sub_msg(m):
    from bumpver import cli
    return {"ok": cli._sub_msg_template(m)}


def dirty_verdict(status_text, files, allow):
    from bumpver import vcs
    api = vcs.VCSAPI("git")
    with _Capture(status_text.encode("utf-8")):
        try:
            vcs.assert_not_dirty(api, set(files), allow)
            return {"ok": "proceed"}
        except SystemExit:
            return {"ok": "abort"}
        except ValueError:
            return {"err": "ValueError"}


# ---- v2 patterns / versions ------------------------------------------------

def _match_json(m):
    if m is None:
        return {"nomatch": 1}
    return {"span": [m.start(), m.end()], "groups": {k: v for k, v in m.groupdict().items() if v is not None}}


def compile_str(pattern):
    from bumpver import v2patterns
    import re
    try:
        return {"ok": v2patterns._compile_pattern_re(pattern).pattern}
    except re.error:
        return {"err": "re.error"}


def compile_search(pattern, line, mode="search"):
    from bumpver import v2patterns
    import re
    try:
        rx = v2patterns._compile_pattern_re(pattern)
    except re.error:
        return {"err": "re.error"}
    return _match_json(rx.search(line) if mode == "search" else rx.match(line))


def re_search(src, line):
    import re
    try:
        return _match_json(re.compile(src).search(line))
    except re.error:
        return {"err": "re.error"}


def normalize(version_pattern, raw_pattern):
    from bumpver import v2patterns
    try:
        return {"ok": v2patterns.normalize_pattern(version_pattern, raw_pattern)}
    except IndexError:
        return {"err": "IndexError"}


def to_pep440_pattern(version_pattern):
    from bumpver import v2patterns
    try:
        return {"ok": v2patterns._convert_to_pep440(version_pattern)}
    except IndexError:
        return {"err": "IndexError"}


def make_vinfo(state):
    """state: dict with optional 'date' [y,m,d] (all nine calendar fields from that date) and
    major minor patch bid tag num inc0 inc1"""
    from bumpver import version, v2version
    kw = dict(year_y=None, year_g=None, quarter=None, month=None, dom=None, doy=None, week_w=None, week_u=None, week_v=None,
              major=0, minor=0, patch=0, bid="1000", tag="final", pytag="", githash="", hexhash="", num=0, inc0=0, inc1=1)
    if state.get("date"):
        kw.update(v2version.cal_info(dt.date(*state["date"]))._asdict())
    for k in ("major", "minor", "patch", "bid", "tag", "num", "inc0", "inc1"):
        if k in state:
            kw[k] = state[k]
    kw["pytag"] = version.PEP440_TAG_BY_TAG[kw["tag"]]
    return version.V2VersionInfo(**kw)


def format_version(state, pattern):
    from bumpver import v2version
    try:
        return {"ok": v2version.format_version(make_vinfo(state), pattern)}
    except (ValueError, KeyError, IndexError) as ex:
        return {"err": exc_name(ex)}
