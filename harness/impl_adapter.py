"""The ONE place that names bumpver's functions.  Everything is imported from
/repo's working tree (the /venv install is editable -> /repo/src); set
VERIF_REPO to point somewhere else (scratch worktrees for seeded changes)."""
import os, sys

REPO = os.environ.get("VERIF_REPO", "/repo")
_src = os.path.join(REPO, "src")
if _src not in sys.path:
    sys.path.insert(0, _src)

import datetime as dt


def exc_name(ex):
    n = type(ex).__name__
    if n in ("PatternError", "NoPatternMatch", "ValueError", "TypeError", "OverflowError", "KeyError",
             "IndexError", "AssertionError", "OSError", "FileNotFoundError", "AttributeError"):
        return n
    if isinstance(ex, SystemExit):
        return "SystemExit(%s)" % (ex.code,)
    return "other:" + n


# ---- C17 ---------------------------------------------------------------

def next_id(s):
    import lexid
    try:
        return {"ok": lexid.next_id(s)}
    except OverflowError:
        return {"err": "OverflowError"}


def bump_bid(s):
    """BUILD step of v2version._incr_numeric, observed through the real function."""
    from bumpver import v2version, version
    vinfo = v2version.parse_field_values_to_vinfo({"bid": s})
    try:
        new = v2version._incr_numeric("BUILD", vinfo, vinfo, major=False, minor=False, patch=False,
                                      tag=None, tag_num=False, pin_increments=True)
        return {"ok": new.bid}
    except OverflowError:
        return {"err": "OverflowError"}


# ---- C12 / C11: VCS command layer ----------------------------------------

class _Capture:
    """patches vcs.sp.check_output; records argv, returns canned output"""

    def __init__(self, output=b""):
        self.calls = []
        self.output = output

    def __enter__(self):
        from bumpver import vcs
        self._vcs = vcs
        self._orig = vcs.sp.check_output

        def fake(cmd_parts, **kw):
            self.calls.append(list(cmd_parts))
            return self.output
        vcs.sp.check_output = fake
        return self

    def __exit__(self, *a):
        self._vcs.sp.check_output = self._orig


def vcs_argv(vcs_name, cmd, kw):
    from bumpver import vcs
    api = vcs.VCSAPI(vcs_name)
    with _Capture() as cap:
        try:
            api(cmd, **kw)
        except (ValueError, KeyError, IndexError) as ex:
            return {"err": exc_name(ex)}
    return {"ok": cap.calls[0]}


def py_format(tmpl, kw):
    try:
        return {"ok": tmpl.format(**kw)}
    except (ValueError, KeyError, IndexError, AttributeError) as ex:
        return {"err": exc_name(ex)}


def shlex_split(s):
    import shlex
    try:
        return {"ok": shlex.split(s)}
    except ValueError:
        return {"err": "ValueError"}


def sub_msg(m):
    from bumpver import cli
    return {"ok": cli._sub_msg_template(m)}


def dirty_verdict(status_text, files, allow):
    from bumpver import vcs
    api = vcs.VCSAPI("git")
    with _Capture(status_text.encode("utf-8")):
        try:
            vcs.assert_not_dirty(api, set(files), allow)
            return {"ok": "proceed"}
        except SystemExit:
            return {"ok": "abort"}
        except ValueError:
            return {"err": "ValueError"}
