"""The ONE place that names bumpver's functions.  Everything is imported from
/repo's working tree (the /venv install is editable -> /repo/src); set
VERIF_REPO to point somewhere else (scratch worktrees for seeded changes)."""
import os, sys

REPO = os.environ.get("VERIF_REPO", "/repo")
_src = os.path.join(REPO, "src")
if _src not in sys.path:
    sys.path.insert(0, _src)

import datetime as dt


def exc_name(ex):
    n = type(ex).__name__
    if n in ("PatternError", "NoPatternMatch", "ValueError", "TypeError", "OverflowError", "KeyError",
             "IndexError", "AssertionError", "OSError", "FileNotFoundError", "AttributeError"):
        return n
    if isinstance(ex, SystemExit):
        return "SystemExit(%s)" % (ex.code,)
    return "other:" + n


# ---- C17 ---------------------------------------------------------------

def next_id(s):
    import lexid
    try:
        return {"ok": lexid.next_id(s)}
    except OverflowError:
        return {"err": "OverflowError"}


def bump_bid(s):
    """BUILD step of v2version._incr_numeric, observed through the real function."""
    from bumpver import v2version, version
    vinfo = v2version.parse_field_values_to_vinfo({"bid": s})
    try:
        new = v2version._incr_numeric("BUILD", vinfo, vinfo, major=False, minor=False, patch=False,
                                      tag=None, tag_num=False, pin_increments=True)
        return {"ok": new.bid}
    except OverflowError:
        return {"err": "OverflowError"}
