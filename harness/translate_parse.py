#!/venv/bin/python
"""Python -> Lean FUNCTION translator, group `parse`: the READ side of the new-style version engine.

Extends harness/translate_funcs.py (imported, never edited) by a subclass of its `FuncTranslator`
for the Python constructs the six functions of this group use: exceptions as `Except PErr`,
`try/except`, `assert`, dicts (`k in d`, `d[k]`, `d.get(k)`, dict literals passed as `**kwargs`, dict
comprehensions), `x or default` as a value, f-strings that only feed exception messages, `datetime`
and `re` calls mapped to the primitives of lean/BumpverVerif/Model/PyPrims.lean, calls of other
translated functions, module-level constants read from the AST.

    version.date_from_doy                   -> Gen/F_dateFromDoy.lean        (BV.GenF.dateFromDoy)
    v2version.cal_info                      -> Gen/F_calInfo.lean            (BV.GenF.calInfo)
    v2version.parse_field_values_to_cinfo   -> Gen/F_parseCinfo.lean         (BV.GenF.parseCinfo)
    v2version.parse_field_values_to_vinfo   -> Gen/F_parseVinfo.lean         (BV.GenF.parseVinfo)
    v2version.parse_version_info            -> Gen/F_parseVersionInfo.lean   (BV.GenF.parseVersionInfo)
    v2version.is_valid                      -> Gen/F_isValid.lean            (BV.GenF.isValid)

`generate(report=None)` has the contract of translate_funcs.generate: {filename: content}; a function
outside the subset yields a file that holds only a comment `UNTRANSLATABLE: ...`, so that exactly the
tie theorems depending on it stop compiling.  Standalone: `/venv/bin/python harness/translate_parse.py
[--write] [--show]`.  The supported subset and every trusted primitive: harness/TRANSLATE_PARSE.md.
"""
import ast
import os
import sys

HERE = os.path.dirname(os.path.abspath(__file__))
sys.path.insert(0, HERE)

import translate_funcs as tf  # noqa: E402
from translate_funcs import (  # noqa: E402
    Untranslatable, BOOL, INT, NAT, LIT, STR, NONE, OPT, LIST, TUP, REC, Var,
    lean_ident, lean_str, indent, is_intlike, _nl, _arm, sha256,
)

# ----------------------------------------------------------------------------------
# additional static types
# ----------------------------------------------------------------------------------
DATE = ("date",)            # datetime.date            Lean `PDate` = Nat × Nat × Nat
TIMEDELTA = ("timedelta",)  # dt.timedelta(days=n)     the Lean term is the `Int` number of days
MSG = ("msg",)              # an f-string: may only be the argument of an exception constructor
REGEX = ("regex",)          # the `.regexp` of a compiled pattern      Lean `Re`
PATTERN = ("pattern",)      # v2patterns.Pattern (only `.regexp` is used)   Lean `Re`
PYMATCH = ("pymatch",)      # re.Match                 Lean `PyMatch`
EXC = ("exc",)              # a caught exception (only re-raised `from`)


def DICT(v):                # dict with str keys       Lean `PyDict V`
    return ("dict", v)


EMPTYDICT = ("emptydict",)  # the literal `{}`: a dict whose value type is not known yet (only the start of a dict-building loop)


def KW(items):              # a dict LITERAL with constant keys, used as **kwargs: ((key, type), ...)
    return ("kwdict", tuple(items))


PRIMS = "BumpverVerif.Model.PyPrims"

# exception classes -> PErr constructors (the classes are pairwise unrelated in Python as well)
EXC_MAP = {
    "ValueError": "valueError",
    "OverflowError": "overflow",
    "KeyError": "keyError",
    "TypeError": "typeError",
    "version.PatternError": "pattern",
    "PatternError": "pattern",
}
ASSERTION = "unsupported"     # AssertionError: outside the modelled language

# records of this group (the field maps of translate_funcs are reused where they exist)
CAL_FIELDS, CAL_LEAN = tf.CAL_FIELDS, tf.CAL_LEAN
RECORDS = {
    "CalOpt": tf.RECORDS["CalOpt"],
    "VInfo": tf.RECORDS["VInfo"],
}
CONSTRUCTORS = {
    "version.V2CalendarInfo": "CalOpt",
    "version.V2VersionInfo": "VInfo",
}
# `<class>._fields` as a list of str
FIELD_NAME_TUPLES = {
    "version.V2VersionInfo._fields": ("version.py", "V2VersionInfo"),
    "version.V2CalendarInfo._fields": ("version.py", "V2CalendarInfo"),
}
# module-level dict constants: represented by the GENERATED tables (harness/gen_tables.py -> Gen/V2Tables.lean)
GLOBAL_TABLES = {
    "version.PEP440_TAG_BY_TAG": ("_root_.BV.Gen.pep440TagByTag", DICT(STR)),
    "version.TAG_BY_PEP440_TAG": ("_root_.BV.Gen.tagByPep440Tag", DICT(STR)),
}
# int(<date>.strftime(fmt), base=10)  ->  the model's calendar functions (trusted primitive, as a unit)
STRFTIME_INT = {
    "%Y": "{d}.1",
    "%m": "{d}.2.1",
    "%d": "{d}.2.2",
    "%G": "(_root_.BV.isoYear {d}.1 {d}.2.1 {d}.2.2)",
    "%j": "(_root_.BV.dayOfYear {d}.1 {d}.2.1 {d}.2.2)",
    "%W": "(_root_.BV.weekW {d}.1 {d}.2.1 {d}.2.2)",
    "%U": "(_root_.BV.weekU {d}.1 {d}.2.1 {d}.2.2)",
    "%V": "(_root_.BV.isoWeek {d}.1 {d}.2.1 {d}.2.2)",
}
DATE_ATTRS = {"year": ".1", "month": ".2.1", "day": ".2.2"}

# callees: python dotted name -> description
#   lean    : Lean function (generated definitions fully qualified, model functions from _root_)
#   params  : parameter types;  ret : result type;  exc : can raise (result `Except PErr ret`)
#   externs : the extra (abstracted) parameters the callee takes after its own -> the caller must have them too
CALLEES = {
    "version.date_from_doy": dict(lean="BV.GenF.dateFromDoy", params=[NAT, NAT], ret=DATE, exc=True, externs=[]),
    "version.quarter_from_month": dict(lean="_root_.BV.quarterFromMonth", params=[NAT], ret=NAT, exc=False,
                                       externs=[]),      # MODEL function, tied by BV.tie_quarterFromMonth
    "parse_field_values_to_cinfo": dict(lean="BV.GenF.parseCinfo", params=[DICT(STR)], ret=REC("CalOpt"),
                                        exc=True, externs=["today"]),
    "parse_field_values_to_vinfo": dict(lean="BV.GenF.parseVinfo", params=[DICT(STR)], ret=REC("VInfo"),
                                        exc=True, externs=["today"]),
    "parse_version_info": dict(lean="BV.GenF.parseVersionInfo", params=[STR, STR], ret=REC("VInfo"),
                               exc=True, externs=["today"]),
}

TODAY = {"version.TODAY": ("today", DATE)}

# ----------------------------------------------------------------------------------
# the signature table
# ----------------------------------------------------------------------------------
FUNCS = [
    dict(name="dateFromDoy", file="version.py", func="date_from_doy",
         params=[("year", NAT), ("doy", NAT)], ret=DATE, exc=True, imports=[PRIMS]),
    dict(name="calInfo", file="v2version.py", func="cal_info",
         params=[("date", OPT(DATE))], ret=REC("CalOpt"), exc=False, externs=TODAY, imports=[PRIMS]),
    dict(name="parseCinfo", file="v2version.py", func="parse_field_values_to_cinfo",
         params=[("field_values", DICT(STR))], ret=REC("CalOpt"), exc=True, externs=TODAY,
         imports=[PRIMS, "BumpverVerif.Gen.F_dateFromDoy"]),
    dict(name="parseVinfo", file="v2version.py", func="parse_field_values_to_vinfo",
         params=[("field_values", DICT(STR))], ret=REC("VInfo"), exc=True, externs=TODAY,
         imports=[PRIMS, "BumpverVerif.Gen.F_parseCinfo"]),
    dict(name="parseVersionInfo", file="v2version.py", func="parse_version_info",
         params=[("version_str", STR), ("raw_pattern", STR)], ret=REC("VInfo"), exc=True, externs=TODAY,
         imports=[PRIMS, "BumpverVerif.Gen.F_parseVinfo"]),
    dict(name="isValid", file="v2version.py", func="is_valid",
         params=[("version_str", STR), ("raw_pattern", STR)], ret=BOOL, exc=True, externs=TODAY,
         imports=[PRIMS, "BumpverVerif.Gen.F_parseVersionInfo"]),
]


def always_true(t):
    """static types whose values are always truthy"""
    return t in (DATE, PYMATCH, REGEX, PATTERN) or t[0] in ("rec", "tuple")


class ParseTranslator(tf.FuncTranslator):
    def __init__(self, spec, sources):
        tf.FuncTranslator.__init__(self, spec, sources)
        self.hoist_count = 0      # number of raising sub-expressions hoisted so far
        self.exc = bool(spec.get("exc"))
        self.raises = self.exc

    # -- type environment -----------------------------------------------------------------
    def record(self, name):
        if name in self.records:
            return self.records[name]
        d = RECORDS[name]
        fname, cls = d["source"]
        pyfields = self.src.class_fields(fname, cls, self.fn)
        fields = d["fields"]
        names = [f for f, _ in pyfields]
        mine = [f for f, _, _ in fields]
        if d.get("exact"):
            if names != mine:
                self.bad(None, "fields of %s.%s are %s, the signature table expects %s" % (fname, cls, names, mine))
        else:
            sub = [f for f in names if f in mine]
            if sub != mine:
                self.bad(None, "fields of %s.%s are %s, the signature table expects the subsequence %s"
                         % (fname, cls, names, mine))
        r = dict(d)
        r["fields"] = fields
        r["pyorder"] = names
        self.records[name] = r
        return r

    def lean_type(self, t):
        k = t[0]
        if t == DATE:
            return "PDate"
        if t == TIMEDELTA:
            return "Int"
        if t == MSG:
            return "Unit"
        if t in (REGEX, PATTERN):
            return "Re"
        if t == PYMATCH:
            return "PyMatch"
        if t == EXC:
            return "PErr"
        if k == "dict":
            inner = self.lean_type(t[1])
            return "PyDict (%s)" % inner if " " in inner else "PyDict " + inner
        if k == "kwdict":
            return "(" + " × ".join(self.lean_type(x) for _, x in t[1]) + ")"
        if k == "rec":
            return RECORDS[t[1]]["lean"]
        if k == "opt":
            inner = self.lean_type(t[1])
            return "Option (%s)" % inner if (" " in inner and not inner.startswith("(")) else "Option " + inner
        if k == "list" and t[1] is not None:
            inner = self.lean_type(t[1])
            return "List (%s)" % inner if (" " in inner and not inner.startswith("(")) else "List " + inner
        return tf.FuncTranslator.lean_type(self, t)

    def unify(self, a, b):
        if a == b:
            return a
        if a[0] == "dict" and b[0] == "dict":
            u = self.unify(a[1], b[1])
            return DICT(u) if u else None
        if a == EMPTYDICT and b[0] == "dict":
            return b
        if b == EMPTYDICT and a[0] == "dict":
            return a
        return tf.FuncTranslator.unify(self, a, b)

    def coerce(self, lean, frm, to, node=None):
        if frm == EMPTYDICT and to[0] == "dict":
            return "[]"
        return tf.FuncTranslator.coerce(self, lean, frm, to, node)

    # -- emission: no `match` in the output, only named eliminators (stable targets for the tie proofs) ---------
    def opt_elim(self, disc, none_term, var, some_term):
        """case distinction on an `Option`: `Option.elim disc <none> (fun var => <some>)`"""
        return "(Option.elim %s\n  (%s)\n  (fun %s => %s))" % (disc, _arm(none_term).strip() if "\n" not in none_term else _arm(none_term),
                                                               var, _arm(some_term))

    def bind(self, term, var, body):
        """`term : Except PErr T` is evaluated; an error propagates, a value is bound to `var`"""
        return "(Except.bind %s (fun %s =>\n%s))" % (term, var, indent(body, 2))

    def untuple(self, tvar, names):
        """`let a := t.1; let b := t.2.1; ...` for the components of a product"""
        n = len(names)
        if n == 1:
            return "let %s := %s;\n" % (lean_ident(names[0]), tvar)
        return "".join("let %s := %s%s;\n" % (lean_ident(x), tvar, ".2" * i + (".1" if i < n - 1 else ""))
                       for i, x in enumerate(names))

    # -- raising sub-expressions -------------------------------------------------------------
    def hoist(self, lean, node, base="v"):
        """register an `Except PErr T` valued term that is evaluated HERE (Python's left-to-right order);
        -> the name its value is bound to"""
        if not self.exc:
            self.bad(node, "an expression that can raise in a function declared not to raise")
        if self.hoists is None:
            self.bad(node, "an expression that can raise is only supported in an assignment, a return, an "
                           "expression statement or a conditional expression (not in a test or a generator)")
        v = self.fresh(base)
        self.hoists.append((v, lean))
        self.hoist_count += 1
        return v

    def with_hoists(self, compute, cont):
        saved = self.hoists
        self.hoists = []
        try:
            val = compute()
            hs = self.hoists
        finally:
            self.hoists = saved
        body = cont(val)
        for name, e in reversed(hs):
            body = self.bind(e, name, body)
        return body

    def ok(self, lean):
        return "(.ok %s)" % lean if self.exc else lean

    def pure_expr(self, node, env, why):
        """an expression in a position that is evaluated conditionally: it must not raise"""
        saved, self.hoists = self.hoists, None
        try:
            return self.expr(node, env)
        except Untranslatable as ex:
            if "can raise" in ex.reason:
                self.bad(node, "an expression that can raise %s" % why)
            raise
        finally:
            self.hoists = saved

    # -- expressions ----------------------------------------------------------------------------
    def expr(self, node, env):
        spec = self.spec
        ext = spec.get("externs", {})
        if isinstance(node, (ast.Call, ast.Attribute, ast.Name)):
            key = ast.unparse(node)
            if key in ext and not (isinstance(node, ast.Name) and node.id in env):
                return ext[key][0], ext[key][1]

        if isinstance(node, ast.JoinedStr):
            # an f-string: opaque, may only become an exception message (which is not modelled)
            return "()", MSG

        if isinstance(node, ast.Name) and node.id not in env:
            return self.module_constant(node, env)

        if isinstance(node, ast.Attribute):
            key = ast.unparse(node)
            if key in GLOBAL_TABLES:
                return GLOBAL_TABLES[key]
            if key in FIELD_NAME_TUPLES:
                fname, cls = FIELD_NAME_TUPLES[key]
                names = [f for f, _ in self.src.class_fields(fname, cls, self.fn)]
                return "[" + ", ".join(lean_str(f) for f in names) + "]", LIST(STR)
            val, t = self.expr(node.value, env)
            if t == DATE:
                if node.attr not in DATE_ATTRS:
                    self.bad(node, "attribute `%s` of a date" % node.attr)
                return "%s%s" % (val, DATE_ATTRS[node.attr]), NAT
            if t == PATTERN and node.attr == "regexp":
                return val, REGEX
            if t[0] != "rec":
                self.bad(node, "attribute access on a value of type %r" % (t,))
            r = self.record(t[1])
            for f, path, ft in r["fields"]:
                if f == node.attr:
                    return "%s.%s" % (val, path), ft
            self.bad(node, "record %s has no (modelled) field `%s`" % (t[1], node.attr))

        if isinstance(node, ast.Subscript):
            val, t = self.expr(node.value, env)
            if t[0] == "dict":
                if (isinstance(node.value, ast.Name) and isinstance(node.slice, ast.Constant)
                        and ("guard", node.value.id, node.slice.value) in env):
                    g = env[("guard", node.value.id, node.slice.value)]      # narrowed by `key in d`
                    return g.lean, g.type
                k, tk = self.expr(node.slice, env)
                if tk != STR:
                    self.bad(node, "dict subscript with a key of type %r" % (tk,))
                v = self.hoist("(pyGetItem %s %s)" % (val, k), node)          # KeyError
                return v, t[1]
            if t[0] != "tuple" or not (isinstance(node.slice, ast.Constant) and isinstance(node.slice.value, int)):
                self.bad(node, "only dict subscripts and constant subscripts of known tuples are supported")
            i, n = node.slice.value, len(t[1])
            if i < 0:
                i += n
            if not 0 <= i < n:
                self.bad(node, "tuple index out of range")
            return "%s%s" % (val, ".2" * i + (".1" if i < n - 1 else "")), t[1][i]

        if isinstance(node, ast.Dict) and not node.keys:
            return "[]", EMPTYDICT
        if isinstance(node, ast.Dict):
            items = []
            for k, v in zip(node.keys, node.values):
                if not (isinstance(k, ast.Constant) and isinstance(k.value, str)):
                    self.bad(node, "a dict literal needs constant str keys (it is only supported as **kwargs)")
                if k.value in [x for x, _, _ in items]:
                    self.bad(node, "duplicate key `%s` in a dict literal" % k.value)
                lv, tv = self.expr(v, env)
                if tv == LIT:
                    tv = NAT
                items.append((k.value, lv, tv))
            if len(items) < 2:
                self.bad(node, "a dict literal of fewer than two items")
            return "(" + ", ".join(lv for _, lv, _ in items) + ")", KW([(k, tv) for k, _, tv in items])

        if isinstance(node, ast.DictComp):
            return self.dict_comp(node, env)

        if isinstance(node, ast.Set):
            return self.list_literal(node, env)           # sets are only iterated / tested for membership

        if isinstance(node, ast.BoolOp) and isinstance(node.op, ast.Or):
            # `a or b` as a VALUE of non-bool type
            saved_c = self.counter
            try:
                return tf.FuncTranslator.expr(self, node, env)
            except Untranslatable as ex:
                if "needs bool operands" not in ex.reason:
                    raise
                self.counter = saved_c
            return self.or_value(node, env, None)

        return tf.FuncTranslator.expr(self, node, env)

    def module_constant(self, node, env):
        """a module-level `NAME = <expr>` of the function's own file, translated from ITS AST"""
        _, tree = self.src.module(self.spec["file"])
        hits = [st for st in tree.body if isinstance(st, ast.Assign) and len(st.targets) == 1
                and isinstance(st.targets[0], ast.Name) and st.targets[0].id == node.id]
        if len(hits) != 1:
            self.bad(node, "unknown name `%s`" % node.id)
        saved, self.hoists = self.hoists, None
        try:
            return self.expr(hits[0].value, {})
        finally:
            self.hoists = saved

    def dict_comp(self, node, env):
        """{key: v for key, val in d.items() if c}  ->  List.filterMap over the entries (the keys stay the
        dict's own, hence distinct)"""
        if len(node.generators) != 1 or node.generators[0].is_async:
            self.bad(node, "only dict comprehensions with one generator")
        g = node.generators[0]
        kname, vname, xs, txs = self.items_loop_head(g.target, g.iter, env, node, "a dict comprehension")
        if not (isinstance(node.key, ast.Name) and node.key.id == kname):
            self.bad(node, "the key expression of a dict comprehension must be the key variable itself")
        if not g.ifs:
            test = ast.Constant(value=True)
        elif len(g.ifs) == 1:
            test = g.ifs[0]
        else:
            test = ast.BoolOp(op=ast.And(), values=list(g.ifs))
        ast.copy_location(test, node)
        ast.fix_missing_locations(test)
        return self.filter_map_items(xs, txs, kname, vname, env, node,
                                     lambda e, keep: self.cond(test, e, lambda e2: keep(e2, node.value), lambda e2: "none"))

    def items_loop_head(self, target, it, env, node, what):
        """`for key, val in <dict>.items()` -> (key name, value name, lean dict, its type)"""
        if not (isinstance(it, ast.Call) and isinstance(it.func, ast.Attribute) and it.func.attr == "items"
                and not it.args and not it.keywords):
            self.bad(node, "%s must range over `<dict>.items()`" % what)
        if not (isinstance(target, ast.Tuple) and len(target.elts) == 2
                and all(isinstance(e, ast.Name) for e in target.elts)):
            self.bad(node, "%s needs the target `key, val`" % what)
        xs, txs = self.expr(it.func.value, env)
        if txs[0] != "dict":
            self.bad(node, "`.items()` of a value of type %r" % (txs,))
        return target.elts[0].id, target.elts[1].id, xs, txs

    def filter_map_items(self, xs, txs, kname, vname, env, node, body_fn):
        """the dict of the entries `(key, v)` that `body_fn` keeps, in the order of `xs` (keys stay distinct)"""
        kv = self.fresh("kv")
        env2 = dict(env)
        env2[kname] = Var(kv + ".1", STR)
        env2[vname] = Var(kv + ".2", txs[1])
        vts = []

        def keep(e, value_node):
            v, vt = self.expr(value_node, e)
            if vt == LIT:
                vt = NAT
            vts.append(vt)
            return "(some (%s, %s))" % (e[kname].lean, v)
        saved, self.hoists = self.hoists, None         # nothing may be hoisted out of the comprehension / loop body
        try:
            body = body_fn(env2, keep)
        finally:
            self.hoists = saved
        if not vts or any(t != vts[0] for t in vts):
            self.bad(node, "cannot type the values of the dict")
        return "(List.filterMap (fun %s =>\n%s) %s)" % (kv, indent(body, 4), xs), DICT(vts[0])

    def dict_loop(self, st, env):
        """the dict-building loop   d = {};  for key, val in X.items(): [if c:] d[key] = e
        is the dict comprehension {key: e for key, val in X.items() [if c]} (every iteration adds at most one entry,
        under the iteration's own key, to a dict that started empty)   -> (dict name, lean, type) or None"""
        if st.orelse or not isinstance(st.target, ast.Tuple):
            return None
        subs = [n for s in st.body for n in ast.walk(s)
                if isinstance(n, ast.Assign) and len(n.targets) == 1 and isinstance(n.targets[0], ast.Subscript)]
        if not subs:
            return None
        t0 = subs[0].targets[0]
        if not isinstance(t0.value, ast.Name):
            self.bad(st, "item assignment to something that is not a dict variable")
        dname = t0.value.id
        if dname not in env or env[dname].type != EMPTYDICT:
            self.bad(st, "a dict-building loop must start from `%s = {}`" % dname)
        kname, vname, xs, txs = self.items_loop_head(st.target, st.iter, env, st, "a dict-building loop")

        def items(stmts, e, keep):
            stmts = [x for x in stmts if not self.is_dropped(x)]
            if not stmts:
                return "none"
            if len(stmts) != 1:
                self.bad(st, "the body of a dict-building loop must be one (conditional) item assignment")
            x = stmts[0]
            if isinstance(x, ast.If):
                return self.cond(x.test, e, lambda e2: items(x.body, e2, keep), lambda e2: items(x.orelse, e2, keep))
            if (isinstance(x, ast.Assign) and len(x.targets) == 1 and isinstance(x.targets[0], ast.Subscript)
                    and isinstance(x.targets[0].value, ast.Name) and x.targets[0].value.id == dname
                    and isinstance(x.targets[0].slice, ast.Name) and x.targets[0].slice.id == kname):
                return keep(e, x.value)
            self.bad(x, "only `%s[%s] = <value>` (under conditions) in a dict-building loop" % (dname, kname))
        lean, t = self.filter_map_items(xs, txs, kname, vname, env, st, lambda e, keep: items(st.body, e, keep))
        return dname, lean, t

    def or_value(self, node, env, wrap):
        """`a or b` (two operands) as a value: `a` when it is truthy, else `b`; `wrap` is applied to both
        results (`int(a or b)` = `int(a) if a else int(b)`).  `b` is evaluated conditionally: it must not raise."""
        if len(node.values) != 2:
            self.bad(node, "`or` as a value with more than two operands")
        a, ta = self.expr(node.values[0], env)
        b, tb = self.pure_expr(node.values[1], env, "on the right of `or`")

        def w(lean, t, n):
            if wrap is None:
                return lean, t
            return wrap(lean, t, n)
        b2, tb2 = w(b, tb, node.values[1])
        if ta[0] == "opt":
            x = self.fresh("o")
            a2, ta2 = w(x, ta[1], node.values[0])
            t = self.unify(ta2, tb2)
            if t is None or t[0] == "opt":
                self.bad(node, "`or` between values of type %r and %r" % (ta, tb))
            if t == LIT:
                t = NAT
            yes, no = self.coerce(a2, ta2, t, node), self.coerce(b2, tb2, t, node)
            tr = self.truthy_of(x, ta[1], node)
            return self.opt_elim(a, no, x, "(if %s then %s else %s)" % (tr, yes, no)), t
        a2, ta2 = w(a, ta, node.values[0])
        t = self.unify(ta2, tb2)
        if t is None or t == NONE:
            self.bad(node, "`or` between values of type %r and %r" % (ta, tb))
        if t == LIT:
            t = NAT
        return "(if %s then %s else %s)" % (self.truthy_of(a, ta, node), self.coerce(a2, ta2, t, node),
                                            self.coerce(b2, tb2, t, node)), t

    def int_of(self, lean, t, node):
        if is_intlike(t):
            return lean, t
        if t == STR:
            return "(strToNat %s)" % lean, NAT       # int(s) for a string of ASCII digits
        self.bad(node, "int() of a value of type %r" % (t,))

    def binop(self, node, env):
        if isinstance(node.op, (ast.Add, ast.BitOr)):
            saved_c, saved_h = self.counter, (list(self.hoists) if self.hoists is not None else None)
            saved_n = self.hoist_count
            a, ta = self.expr(node.left, env)
            b, tb = self.expr(node.right, env)
            if isinstance(node.op, ast.Add) and ta == DATE and tb == TIMEDELTA:
                v = self.hoist("(pyDateAddDays %s %s)" % (a, b), node, "d")     # OverflowError
                return v, DATE
            if isinstance(node.op, ast.BitOr):
                if ta[0] == "list" and tb[0] == "list":       # set union, the sets being lists
                    u = self.unify(ta, tb)
                    if u is None:
                        self.bad(node, "union of sets of different types")
                    return "(%s ++ %s)" % (a, b), u
                self.bad(node, "`|` on %r and %r" % (ta, tb))
            # anything else: the base class (re-evaluates the operands)
            self.counter, self.hoist_count = saved_c, saved_n
            if saved_h is not None:
                self.hoists[:] = saved_h
        return tf.FuncTranslator.binop(self, node, env)

    def ifexp(self, node, env):
        """`a if c else b`; a branch that can raise makes the whole expression an `Except` term that is
        evaluated at this point (the branches stay conditional)"""
        saved_c, saved_n, saved_h = self.counter, self.hoist_count, self.hoists
        types = []

        def probe(n):
            def k(e):
                self.hoists = []
                _, t = self.expr(n, e)
                types.append(t)
                return "?"
            return k
        try:
            self.cond(node.test, env, probe(node.body), probe(node.orelse))
        finally:
            self.hoists = saved_h
        raising = self.hoist_count != saved_n
        self.counter, self.hoist_count = saved_c, saved_n
        if not raising:
            return tf.FuncTranslator.ifexp(self, node, env)
        t = types[0]
        for t2 in types[1:]:
            t = self.unify(t, t2)
            if t is None:
                self.bad(node, "the branches of the conditional expression have different types")
        if t == LIT:
            t = NAT

        def branch(n):
            def k(e):
                return self.with_hoists(lambda: self.expr(n, e),
                                        lambda vt: "(.ok %s)" % self.coerce(vt[0], vt[1], t, n))
            return k
        saved_h, self.hoists = self.hoists, None       # the test itself must be pure
        try:
            term = self.cond(node.test, env, branch(node.body), branch(node.orelse))
        finally:
            self.hoists = saved_h
        v = self.hoist("(%s : Except PErr %s)" % (term, self.paren_type(t)), node)
        return v, t

    def compare1(self, op, ln, rn, env, node):
        if isinstance(op, (ast.In, ast.NotIn)):
            saved_c = self.counter
            b, tb = self.pure_expr(rn, env, "in a comparison")
            if tb[0] == "dict":
                a, ta = self.pure_expr(ln, env, "in a comparison")
                if ta != STR:
                    self.bad(node, "`in` on %r and a dict" % (ta,))
                return "(%spyHasKey %s %s)" % ("!" if isinstance(op, ast.NotIn) else "", b, a)
            self.counter = saved_c
        return tf.FuncTranslator.compare1(self, op, ln, rn, env, node)

    def call(self, node, env):
        f = node.func
        fname = ast.unparse(f)

        # int(date.strftime("%W"), base=10), as a unit
        if fname == "int" and len(node.args) == 1 and isinstance(node.args[0], ast.Call) \
                and isinstance(node.args[0].func, ast.Attribute) and node.args[0].func.attr == "strftime":
            for kw in node.keywords:
                if not (kw.arg == "base" and isinstance(kw.value, ast.Constant) and kw.value.value == 10):
                    self.bad(node, "int(..., %s=...)" % kw.arg)
            inner = node.args[0]
            recv, tr = self.expr(inner.func.value, env)
            if tr != DATE:
                self.bad(node, "strftime on a value of type %r" % (tr,))
            if not (len(inner.args) == 1 and not inner.keywords and isinstance(inner.args[0], ast.Constant)
                    and inner.args[0].value in STRFTIME_INT):
                self.bad(node, "int(date.strftime(fmt)) is supported for fmt in %s" % sorted(STRFTIME_INT))
            return STRFTIME_INT[inner.args[0].value].format(d=recv), NAT

        # int(a or b)
        if fname == "int" and len(node.args) == 1 and not node.keywords and isinstance(node.args[0], ast.BoolOp) \
                and isinstance(node.args[0].op, ast.Or):
            return self.or_value(node.args[0], env, self.int_of)

        if fname == "int" and len(node.args) == 1 and not node.keywords:
            a, ta = self.expr(node.args[0], env)
            return self.int_of(a, ta, node)

        # any((a, b, c)) / all([a, b]) over a literal: the disjunction / conjunction of the truth values
        if fname in ("any", "all") and len(node.args) == 1 and not node.keywords \
                and isinstance(node.args[0], (ast.Tuple, ast.List)):
            saved, self.hoists = self.hoists, None
            try:
                parts = [self.truthy(e, env) for e in node.args[0].elts]
            finally:
                self.hoists = saved
            if not parts:
                return ("false" if fname == "any" else "true"), BOOL
            return "(" + (" || " if fname == "any" else " && ").join(parts) + ")", BOOL

        if fname == "set" and len(node.args) == 1 and not node.keywords:
            a, ta = self.expr(node.args[0], env)
            if ta[0] != "list":
                self.bad(node, "set() of a value of type %r" % (ta,))
            return a, ta

        if fname == "dt.date" and len(node.args) == 3 and not node.keywords:
            args = []
            for x in node.args:
                a, ta = self.expr(x, env)
                if ta not in (NAT, LIT):
                    self.bad(node, "dt.date() needs non-negative int arguments, not %r" % (ta,))
                args.append(a)
            v = self.hoist("(pyDate %s)" % " ".join(args), node, "d")          # ValueError
            return v, DATE

        if fname == "dt.timedelta":
            if node.args or len(node.keywords) != 1 or node.keywords[0].arg != "days":
                self.bad(node, "only dt.timedelta(days=n)")
            a, ta = self.expr(node.keywords[0].value, env)
            if not is_intlike(ta):
                self.bad(node, "dt.timedelta(days=%r)" % (ta,))
            return self.coerce(a, ta, INT, node), TIMEDELTA

        if fname == "v2patterns.compile_pattern" and len(node.args) == 1 and not node.keywords:
            a, ta = self.expr(node.args[0], env)
            if ta != STR:
                self.bad(node, "compile_pattern of a value of type %r" % (ta,))
            v = self.hoist("(pyCompilePattern %s)" % a, node, "pat")          # outside the regex fragment
            return v, PATTERN

        if fname in CALLEES:
            c = CALLEES[fname]
            if node.keywords or len(node.args) != len(c["params"]):
                self.bad(node, "call of `%s` needs %d positional arguments" % (fname, len(c["params"])))
            args = []
            for x, pt in zip(node.args, c["params"]):
                a, ta = self.expr(x, env)
                args.append(self.coerce(a, ta, pt, x))
            mine = [ln for ln, _ in self.spec.get("externs", {}).values()]
            for e in c["externs"]:
                if e not in mine:
                    self.bad(node, "the callee `%s` needs the abstracted parameter `%s`" % (fname, e))
                args.append(e)
            term = "(%s %s)" % (c["lean"], " ".join(args))
            if c["exc"]:
                return self.hoist(term, node), c["ret"]
            return term, c["ret"]

        if fname in CONSTRUCTORS:
            return self.construct(node, env, CONSTRUCTORS[fname])

        if isinstance(f, ast.Attribute):
            m = f.attr
            if m in ("get", "startswith", "match", "group", "groupdict") and not node.keywords:
                recv, tr = self.expr(f.value, env)
                if m == "get" and tr[0] == "dict" and len(node.args) == 1:
                    k, tk = self.expr(node.args[0], env)
                    if tk != STR:
                        self.bad(node, "dict.get with a key of type %r" % (tk,))
                    inner = tr[1]
                    if inner[0] == "opt":
                        self.bad(node, "dict.get on a dict with Optional values")
                    return "(pyGet %s %s)" % (recv, k), OPT(inner)
                if m == "startswith" and tr == STR and len(node.args) == 1:
                    p, tp = self.expr(node.args[0], env)
                    if tp != STR:
                        self.bad(node, "str.startswith of a value of type %r" % (tp,))
                    return "(startsWith %s %s)" % (recv, p), BOOL
                if m == "match" and tr == REGEX and len(node.args) == 1:
                    s, ts = self.expr(node.args[0], env)
                    if ts != STR:
                        self.bad(node, "regexp.match of a value of type %r" % (ts,))
                    return "(pyReMatch %s %s)" % (recv, s), OPT(PYMATCH)
                if m == "group" and tr == PYMATCH and not node.args:
                    return "(PyMatch.group0 %s)" % recv, STR
                if m == "groupdict" and tr == PYMATCH and not node.args:
                    return "(PyMatch.groupdict %s)" % recv, DICT(OPT(STR))
                self.bad(node, "method `%s` on a value of type %r" % (m, tr))
        return tf.FuncTranslator.call(self, node, env)

    def construct(self, node, env, recname):
        """NamedTuple constructor: positional / keyword / **<dict literal> arguments.  Fields of the Python class
        that the model record does not have (githash, hexhash) are accepted and their values dropped."""
        r = self.record(recname)
        fields = r["fields"]
        pyorder = r["pyorder"]
        vals = {}
        if len(node.args) > len(pyorder):
            self.bad(node, "too many constructor arguments")
        for f_, a in zip(pyorder, node.args):
            vals[f_] = ("node", a)
        for kw in node.keywords:
            if kw.arg is None:
                lv, tv = self.expr(kw.value, env)
                if tv[0] != "kwdict":
                    self.bad(node, "`**` of a value that is not a dict literal")
                n = len(tv[1])
                for i, (k, kt) in enumerate(tv[1]):
                    if k in vals or k not in pyorder:
                        self.bad(node, "bad keyword `%s`" % k)
                    vals[k] = ("lean", "%s%s" % (lv, ".2" * i + (".1" if i < n - 1 else "")), kt)
                continue
            if kw.arg in vals or kw.arg not in pyorder:
                self.bad(node, "bad keyword `%s`" % kw.arg)
            vals[kw.arg] = ("node", kw.value)
        missing = [f_ for f_ in pyorder if f_ not in vals]
        if missing:
            self.bad(node, "constructor arguments missing: %s" % ", ".join(missing))
        items = []
        modelled = {f_: (path, ft) for f_, path, ft in fields}
        for f_ in pyorder:                       # evaluation order = argument order is irrelevant: all pure or hoisted
            v = vals[f_]
            if v[0] == "node":
                lv, tv = self.expr(v[1], env)
            else:
                lv, tv = v[1], v[2]
            if f_ not in modelled:
                continue                          # unmodelled field: evaluated (it must translate), value dropped
            path, ft = modelled[f_]
            items.append("%s := %s" % (path, self.coerce(lv, tv, ft, node)))
        return "({ " + ", ".join(items) + " } : %s)" % r["lean"], REC(recname)

    # -- truthiness --------------------------------------------------------------------------------
    def truthy_of(self, lean, t, node):
        if always_true(t):
            return "true"
        if t[0] == "opt" and always_true(t[1]):
            return "(%s != none)" % lean
        if t == MSG or t[0] in ("dict", "kwdict"):
            self.bad(node, "truthiness of a value of type %r" % (t,))
        return tf.FuncTranslator.truthy_of(self, lean, t, node)

    def guard_atom(self, node, env):
        """`"key" in d` / `"key" not in d` with `d` a dict VARIABLE: -> (dict name, key, negated)"""
        if (isinstance(node, ast.Compare) and len(node.ops) == 1 and isinstance(node.ops[0], (ast.In, ast.NotIn))
                and isinstance(node.left, ast.Constant) and isinstance(node.left.value, str)
                and isinstance(node.comparators[0], ast.Name) and node.comparators[0].id in env
                and env[node.comparators[0].id].type[0] == "dict"):
            return node.comparators[0].id, node.left.value, isinstance(node.ops[0], ast.NotIn)
        return None

    def needs_split(self, node, env):
        if self.guard_atom(node, env) is not None:
            return True
        return tf.FuncTranslator.needs_split(self, node, env)

    def changed_vars(self, env, probes):
        strip = [{n: v for n, v in pe.items() if isinstance(n, str)} for pe in probes]
        return tf.FuncTranslator.changed_vars(self, {n: v for n, v in env.items() if isinstance(n, str)}, strip)

    def cond(self, test, env, tk, ek, as_bool=False, top=True):
        """as translate_funcs.FuncTranslator.cond, with `Option.elim` instead of `match`, plus two narrowing rules"""
        # `"key" in d` NARROWS `d["key"]`: in the branch where the key is present the subscript is the value found
        # (no KeyError); the test and the lookup become one case distinction on `pyGet d key`
        g = self.guard_atom(test, env)
        if g is not None and not as_bool:
            dname, key, neg = g
            var = env[dname]
            v = self.fresh("v")
            env2 = dict(env)
            env2[("guard", dname, key)] = Var(v, var.type[1])
            in_k, out_k = (ek, tk) if neg else (tk, ek)
            return self.opt_elim("(pyGet %s %s)" % (var.lean, lean_str(key)), out_k(env), v, in_k(env2))
        # a bare Optional variable whose values are always truthy (date, match): the same as `x is not None`
        if isinstance(test, ast.Name) and test.id in env and not as_bool:
            t = env[test.id].type
            if t[0] == "opt" and always_true(t[1]):
                cmp_ = ast.Compare(left=ast.Name(id=test.id, ctx=ast.Load()), ops=[ast.IsNot()],
                                   comparators=[ast.Constant(value=None)])
                ast.copy_location(cmp_, test)
                ast.fix_missing_locations(cmp_)
                return self.cond(cmp_, env, tk, ek, as_bool=as_bool, top=top)
        if isinstance(test, ast.UnaryOp) and isinstance(test.op, ast.Not):
            if as_bool and not self.needs_split(test, env):
                return self.truthy(test, env)
            return self.cond(test.operand, env, ek, tk, top=top)
        if isinstance(test, ast.BoolOp) and self.needs_split(test, env):
            first, rest = test.values[0], test.values[1:]
            more = rest[0] if len(rest) == 1 else ast.copy_location(ast.BoolOp(op=test.op, values=rest), test)
            if isinstance(test.op, ast.And):
                return self.cond(first, env, lambda e: self.cond(more, e, tk, ek, top=False), ek, top=False)
            return self.cond(first, env, tk, lambda e: self.cond(more, e, tk, ek, top=False), top=False)
        atom = self.narrowing_atom(test, env, top=top and not as_bool)
        if atom is not None:
            name = test.id if atom == "truthy" else test.left.id
            var = env[name]
            nv = self.fresh(name)
            env2 = dict(env)
            env2[name] = Var(nv, var.type[1], narrowed_from=var)
            if atom == "truthy":
                inner = "(if %s then %s else %s)" % (self.truthy_of(nv, var.type[1], test), _nl(tk(env2)), _nl(ek(env)))
                return self.opt_elim(var.lean, ek(env), nv, inner)
            none_k, some_k = (tk, ek) if atom == "is" else (ek, tk)
            return self.opt_elim(var.lean, none_k(env), nv, some_k(env2))
        b = self.truthy(test, env)
        if as_bool:
            return b
        return "(if %s then %s else %s)" % (b, _nl(tk(env)), _nl(ek(env)))

    # -- statements -------------------------------------------------------------------------------------
    def contains_exit(self, stmts, allow_continue=False):
        for st in stmts:
            for n in ast.walk(st):
                if isinstance(n, (ast.Assert, ast.Try)):
                    return True
        return tf.FuncTranslator.contains_exit(self, stmts, allow_continue)

    def ret(self, node, env, at):
        rt = self.spec["ret"]

        def compute():
            if node is None:
                return "none", NONE
            return self.expr(node, env)

        def cont(vt):
            v, t = vt
            return self.ok(self.coerce(v, t, rt, at))
        return self.with_hoists(compute, cont)

    def assign(self, name, compute, env, kr, at):
        def cont(vt):
            v, t = vt
            ln = lean_ident(name)
            env2 = {n: x for n, x in env.items() if not (isinstance(n, tuple) and n[1] == name)}
            if t == NONE:
                # `x = None`: no Lean binding (its type is not known yet); every use is the constant `none`
                env2[name] = Var("none", NONE)
                return kr(env2)
            if t == EMPTYDICT:
                # `d = {}`: no Lean binding either; it must be filled by a dict-building loop
                env2[name] = Var("[]", EMPTYDICT)
                return kr(env2)
            env2[name] = Var(ln, t)
            return "let %s := %s;\n%s" % (ln, v, kr(env2))
        return self.with_hoists(compute, cont)

    def exc_ctor(self, node, at):
        name = ast.unparse(node.func) if isinstance(node, ast.Call) else ast.unparse(node)
        if name not in EXC_MAP:
            self.bad(at, "exception class `%s` has no PErr constructor" % name)
        return EXC_MAP[name]

    def block(self, stmts, env, k):
        if not stmts:
            return k(env)
        st, rest = stmts[0], stmts[1:]

        def kr(e):
            return self.block(rest, e, k)
        if self.is_dropped(st):
            return kr(env)
        if isinstance(st, ast.Raise):
            if not self.exc:
                self.bad(st, "`raise` in a function declared not to raise")
            if st.exc is None:
                self.bad(st, "bare `raise`")
            if isinstance(st.exc, ast.Call):
                # the message must translate (as an opaque value), it is then dropped
                for a in st.exc.args:
                    _, ta = self.pure_expr(a, env, "in an exception message")
                    if ta not in (MSG, STR):
                        self.bad(st, "exception argument of type %r" % (ta,))
            if st.cause is not None:
                _, tc = self.expr(st.cause, env)
                if tc != EXC:
                    self.bad(st, "`raise ... from` something that is not the caught exception")
            return "(.error .%s)" % self.exc_ctor(st.exc, st)
        if isinstance(st, ast.Assert):
            if not self.exc:
                self.bad(st, "`assert` in a function declared not to raise")
            c = self.cond(st.test, env, lambda e: "true", lambda e: "false", as_bool=True)
            return "(if %s then %s else (.error .%s))" % (c, _nl(kr(env)), ASSERTION)
        if isinstance(st, ast.Try):
            return self.try_stmt(st, rest, env, k)
        if isinstance(st, ast.Expr) and isinstance(st.value, ast.Call) and not self.is_append(st):
            # a call for its effect: here the only effect is that it may raise
            return self.with_hoists(lambda: self.expr(st.value, env), lambda vt: kr(env))
        return tf.FuncTranslator.block(self, stmts, env, k)

    def is_append(self, st):
        f = st.value.func
        return isinstance(f, ast.Attribute) and f.attr == "append"

    def try_stmt(self, st, rest, env, k):
        if not self.exc:
            self.bad(st, "`try` in a function declared not to raise")
        if st.orelse or st.finalbody or len(st.handlers) != 1:
            self.bad(st, "only `try: ... except <classes> [as name]: ...` with one handler")
        h = st.handlers[0]
        if h.type is None:
            self.bad(st, "bare `except:`")
        classes = [self.exc_ctor(c, st) for c in (h.type.elts if isinstance(h.type, ast.Tuple) else [h.type])]

        has_return = any(isinstance(n, ast.Return) for x in st.body for n in ast.walk(x))
        if not has_return:
            return self.try_fallthrough(st, h, classes, rest, env, k)

        def no_fall(e):
            self.bad(st, "a `try` body that contains `return` must end in return/raise on every path")
        body = self.block(list(st.body), env, no_fall)
        ex = self.fresh("ex")
        env_h = dict(env)
        if h.name:
            env_h[h.name] = Var(ex, EXC)
        handler = self.block(list(h.body), env_h, lambda e: self.block(rest, {n: v for n, v in e.items() if n != h.name}, k))
        test = " || ".join("%s == PErr.%s" % (ex, c) for c in classes)
        rt = self.paren_type(self.spec["ret"])
        return ("(Except.tryCatch (%s : Except PErr %s) (fun %s =>\n  (if (%s) then %s else (.error %s))))"
                % (body, rt, ex, test, _nl(handler), ex))

    def try_fallthrough(self, st, h, classes, rest, env, k):
        """try: BODY (no `return` inside: it falls through or raises)  except E [as ex]: HANDLER ; REST
        ->  pyTry BODY (fun <assigned variables> => REST) (fun ex => if ex ∈ E then HANDLER ; REST else .error ex):
        only BODY's exceptions reach the handler, REST's do not"""
        saved = self.counter
        probes = []

        def pk(e):
            probes.append(e)
            return "?"
        self.block(list(st.body), env, pk)
        self.counter = saved
        names = [n for n in self.changed_vars(env, probes) if all(n in pe for pe in probes)]
        jt = {}
        for n in names:
            t = probes[0][n].type
            for pe in probes[1:]:
                t = self.unify(t, pe[n].type) if t is not None else None
            if t is None or t[0] in ("none", "emptydict"):
                self.bad(st, "cannot type the variable `%s` assigned in the `try` body" % n)
            jt[n] = NAT if t == LIT else t

        def tup(e):
            vals = [self.coerce(e[n].lean, e[n].type, jt[n], st) for n in names]
            return "(.ok %s)" % ("()" if not vals else vals[0] if len(vals) == 1 else "(" + ", ".join(vals) + ")")
        body = self.block(list(st.body), env, tup)
        tys = [self.lean_type(jt[n]) for n in names]
        ty = "Unit" if not tys else tys[0] if len(tys) == 1 else " × ".join(tys)
        env2 = dict(env)
        for n in names:
            env2[n] = Var(lean_ident(n), jt[n])
        j = self.fresh("j")
        on_ok = (self.untuple(j, names) if names else "") + self.block(rest, env2, k)
        ex = self.fresh("ex")
        env_h = dict(env)
        if h.name:
            env_h[h.name] = Var(ex, EXC)
        handler = self.block(list(h.body), env_h, lambda e: self.block(rest, {n: v for n, v in e.items() if n != h.name}, k))
        test = " || ".join("%s == PErr.%s" % (ex, c) for c in classes)
        return ("(pyTry (%s : Except PErr (%s)) (fun %s =>\n%s) (fun %s =>\n  (if (%s) then %s else (.error %s))))"
                % (body, ty, j, indent(on_ok, 2), ex, test, _nl(handler), ex))

    def if_stmt(self, st, rest, env, k):
        def kr(e):
            return self.block(rest, e, k)
        if not self.contains_exit(st.body) and not self.contains_exit(st.orelse):
            saved, saved_n = self.counter, self.hoist_count
            probes = []

            def pk(e):
                probes.append(e)
                return "?"
            self.cond(st.test, env, lambda e: self.block(st.body, e, pk), lambda e: self.block(st.orelse, e, pk))
            monadic = self.hoist_count != saved_n
            self.counter, self.hoist_count = saved, saved_n
            names = self.changed_vars(env, probes)
            names = [n for n in names if all(n in pe for pe in probes)]
            jt = {}
            ok = True
            for n in names:
                t = probes[0][n].type
                for pe in probes[1:]:
                    t = self.unify(t, pe[n].type) if t is not None else None
                if t is None or t[0] == "none":
                    ok = False
                    break
                if t == LIT:
                    t = NAT
                jt[n] = t
            if ok and (names or monadic):
                def tup(e):
                    vals = [self.coerce(e[n].lean, e[n].type, jt[n], st) for n in names]
                    v = "()" if not vals else vals[0] if len(vals) == 1 else "(" + ", ".join(vals) + ")"
                    return "(.ok %s)" % v if monadic else v
                body = self.cond(st.test, env, lambda e: self.block(st.body, e, tup),
                                 lambda e: self.block(st.orelse, e, tup))
                env2 = dict(env)
                for n in names:
                    env2[n] = Var(lean_ident(n), jt[n])
                j = self.fresh("j")
                if monadic:
                    tys = [self.lean_type(jt[n]) for n in names]
                    ty = "Unit" if not tys else tys[0] if len(tys) == 1 else " × ".join(tys)
                    return self.bind("(%s : Except PErr (%s))" % (body, ty), j,
                                     (self.untuple(j, names) if names else "") + kr(env2))
                # pure join: one `let` per variable (the decision tree is repeated, no tuple is built), through fresh
                # names so that a later tree still sees the OLD values
                js, out = [], ""
                for n in names:
                    def one(e, n=n):
                        return self.coerce(e[n].lean, e[n].type, jt[n], st)
                    b1 = self.cond(st.test, env, lambda e: self.block(st.body, e, one),
                                   lambda e: self.block(st.orelse, e, one))
                    jn = self.fresh("j")
                    js.append(jn)
                    out += "let %s := %s;\n" % (jn, b1)
                out += "".join("let %s := %s;\n" % (lean_ident(n), jn) for n, jn in zip(names, js))
                return out + kr(env2)
            if ok and not names:
                return kr(env)
        return self.cond(st.test, env, lambda e: self.block(st.body, e, kr), lambda e: self.block(st.orelse, e, kr))

    def iterable(self, node, env):
        saved_c = self.counter
        try:
            xs, t = self.pure_expr(node, env, "as the iterable of a loop")
        except Untranslatable:
            self.counter = saved_c
            return tf.FuncTranslator.iterable(self, node, env)
        if t[0] == "dict":
            return "(pyKeys %s)" % xs, STR               # `for key in d` iterates the keys
        if t[0] != "list" or t[1] is None:
            self.bad(node, "loop over a value of type %r" % (t,))
        return xs, t[1]

    def for_stmt(self, st, rest, env, k):
        body = [s for s in st.body if not self.is_dropped(s)]
        if body and all(isinstance(s, ast.Assert) for s in body):
            # for x in xs: assert c   ->   every element satisfies c, else AssertionError
            if st.orelse or not isinstance(st.target, ast.Name):
                self.bad(st, "only `for name in xs:` without else")
            if not self.exc:
                self.bad(st, "`assert` in a function declared not to raise")
            xs, et = self.iterable(st.iter, env)
            x = lean_ident(st.target.id)
            env_in = dict(env)
            env_in[st.target.id] = Var(x, et)
            saved, self.hoists = self.hoists, None
            try:
                tests = [self.cond(s.test, env_in, lambda e: "true", lambda e: "false", as_bool=True) for s in body]
            finally:
                self.hoists = saved
            c = tests[0] if len(tests) == 1 else "(" + " && ".join(tests) + ")"
            return "(if (List.all %s (fun %s => %s)) then %s else (.error .%s))" % (
                xs, x, c, _nl(self.block(rest, env, k)), ASSERTION)
        dl = self.dict_loop(st, env)
        if dl is not None:
            dname, lean, t = dl
            env2 = {n: x for n, x in env.items() if not (isinstance(n, tuple) and n[1] == dname)}
            env2[dname] = Var(lean_ident(dname), t)
            return "let %s := %s;\n%s" % (lean_ident(dname), lean, self.block(rest, env2, k))
        return tf.FuncTranslator.for_stmt(self, st, rest, env, k)

    # -- the whole function -------------------------------------------------------------------------------
    def translate(self):
        spec = self.spec
        src, node = self.src.find(spec["file"], ast.FunctionDef, spec["func"])
        if node is None:
            raise Untranslatable(self.fn, None, "function not found in %s" % spec["file"])
        self.source_text = ast.get_source_segment(src, node)
        a = node.args
        if a.vararg or a.kwarg or a.kwonlyargs or a.posonlyargs:
            self.bad(node, "only plain positional parameters")
        pynames = [x.arg for x in a.args]
        if pynames != [p for p, _ in spec["params"]]:
            self.bad(node, "parameters are %s, the signature table expects %s" % (pynames, [p for p, _ in spec["params"]]))
        for d in a.defaults:
            # a default value is the CALLER's business (the tie quantifies over all arguments)
            if not isinstance(d, ast.Constant):
                self.bad(node, "only constant parameter defaults")
        env = {}
        params = []
        for p, t in spec["params"]:
            if t[0] == "rec":
                self.record(t[1])
            env[p] = Var(lean_ident(p), t)
            params.append("(%s : %s)" % (lean_ident(p), self.lean_type(t)))
        for key, (ln, t) in spec.get("externs", {}).items():
            params.append("(%s : %s)" % (ln, self.lean_type(t)))
        rt = self.lean_type(spec["ret"])
        if self.exc:
            rt = "Except PErr (%s)" % rt if " " in rt else "Except PErr " + rt

        def fall_off(e):
            return self.ret(None, e, node)
        body = self.block(list(node.body), env, fall_off)
        for key, (ln, _) in spec.get("externs", {}).items():
            if ln not in body:
                self.bad(node, "the expression `%s` (abstracted as parameter `%s`) does not occur" % (key, ln))
        head = "def %s %s : %s :=" % (spec["name"], " ".join(params), rt)
        return [], head + "\n" + indent(body, 2) + "\n"


# ----------------------------------------------------------------------------------
# file generation
# ----------------------------------------------------------------------------------
def render(spec, sources):
    fname = "F_%s.lean" % spec["name"]
    tr = ParseTranslator(spec, sources)
    where = "src/bumpver/%s" % spec["file"]
    try:
        decls, body = tr.translate()
    except Untranslatable as ex:
        text = getattr(tr, "source_text", None)
        lines = [
            "/- GENERATED by harness/translate_parse.py. Do not edit.",
            "   source   : %s" % where,
            "   function : %s" % spec["func"],
            "   sha256   : %s" % (sha256(text) if text else "(function not found)"),
            "",
            "   UNTRANSLATABLE: %s" % str(ex).replace("-/", "- /"),
            "   (no definition is generated; BV.tie_%s cannot compile until this is resolved) -/" % spec["name"],
            "",
        ]
        return fname, "\n".join(lines), ex
    except Exception as ex:  # unreadable / unparsable source, or an internal error: never a silent success
        lines = [
            "/- GENERATED by harness/translate_parse.py. Do not edit.",
            "   source   : %s" % where,
            "   function : %s" % spec["func"],
            "",
            "   UNTRANSLATABLE: the source could not be read/parsed/translated: %s: %s -/"
            % (type(ex).__name__, str(ex).replace("-/", "- /")),
            "",
        ]
        return fname, "\n".join(lines), ex
    lines = [
        "/- GENERATED by harness/translate_parse.py from the Python AST. Do not edit.",
        "   source   : %s" % where,
        "   function : %s" % spec["func"],
        "   sha256   : %s  (of the function's source text) -/" % sha256(tr.source_text),
    ]
    for imp in spec["imports"]:
        lines.append("import %s" % imp)
    lines.append("set_option linter.unusedVariables false")
    lines.append("namespace BV.GenF")
    lines.append("")
    lines.append("/-- `%s.%s` -/" % (spec["file"][:-3], spec["func"]))
    lines.append(body)
    lines.append("end BV.GenF")
    lines.append("")
    return fname, "\n".join(lines), None


def generate(report=None):
    """{filename: content} for lean/BumpverVerif/Gen/"""
    sources = tf.Sources()
    out = {}
    for spec in FUNCS:
        fname, content, err = render(spec, sources)
        out[fname] = content
        if report is not None:
            report.append((spec["func"], fname, err))
    return out


def main():
    rep = []
    files = generate(rep)
    gen = os.path.join(os.path.dirname(HERE), "lean", "BumpverVerif", "Gen")
    if "--write" in sys.argv:
        for name, content in files.items():
            path = os.path.join(gen, name)
            old = open(path, encoding="utf-8").read() if os.path.exists(path) else None
            if old != content:
                with open(path, "w", encoding="utf-8") as f:
                    f.write(content)
                print("wrote", name)
    for func, fname, err in rep:
        print("%-32s %-28s %s" % (func, fname, "ok" if err is None else "UNTRANSLATABLE: %s" % err))
    if "--show" in sys.argv:
        for name, content in files.items():
            print("=" * 20, name)
            print(content)
    return 0


if __name__ == "__main__":
    sys.exit(main())
