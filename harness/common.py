"""Shared machinery of the checks: build + audit of the Lean side, the model
driver, the correspondence comparator, known-findings handling, evidence and
VIOLATION plumbing.  See DESIGN.md sections 4 and 5."""
import os, sys, json, re, time, random, subprocess, fcntl, hashlib, shutil, tempfile, traceback

VERIF = os.path.dirname(os.path.dirname(os.path.abspath(__file__)))
LEAN = os.path.join(VERIF, "lean")
REPO = os.environ.get("VERIF_REPO", "/repo")
PY = "/venv/bin/python"
ALLOWED_AXIOMS = {"propext", "Classical.choice", "Quot.sound"}
FORBIDDEN = re.compile(r"\bsorry\b|\badmit\b|^\s*axiom\s|native_decide|bv_decide|implemented_by|\bunsafe\s|maxHeartbeats\s+0\b", re.M)

TRUSTED_BASE = [
    "Lean 4.33 kernel (lake build; thorough tier re-checks the .olean files with leanchecker)",
    "axioms allowed in property theorems: propext, Classical.choice, Quot.sound (audited with #print axioms on every run); no sorry/admit/native_decide/bv_decide/own axioms (grepped on every run)",
    "harness/translate.py: regenerates lean/BumpverVerif/Gen/*.lean from /repo's working tree on every run (trusted to transcribe literals; the tables are also executed by the driver in the correspondence check)",
    "harness/translate_funcs.py and its plug-in modules harness/translate_{cli,patterns,parse,format,rewrite,config,v1,effects,argv,v1rewrite,filepatterns,commands}.py (picked up automatically by translate.py): translate the BODY of ~130 bumpver functions (the bump core, the read and render side of both engines, the pattern compiler, both rewrite paths, the config readers, file-pattern compilation and init, the cli decision functions and the commands `test`/`update` themselves, the PEP 440 key, the VCS step sequencing, argument vectors and hooks as effect monads) from their Python AST to Lean on every run (Gen/F_*.lean); each is PROVED equal to the hand model for all inputs (Proofs/Tie_*.lean, registered per property in harness/ties.json, built and axiom-audited by the checks). Trusted: each translator's reading of its documented Python subset (harness/TRANSLATE_*.md: typing, truthiness, evaluation order, exceptions as Except/Option, generators as lists, effects as Eff), the hard-coded signature tables, and the TRUSTED PRIMITIVES that stand for Python built-ins and third-party calls (Model/CliPrims.lean, Model/PyPrims.lean, Model/ConfigPy.lean, Model/Eff.lean, Model/EffK.lean, Model/Cmd.lean, Model/FilePatterns.lean, Gen/F_PyPrelude, F_formatPrelude, F_rewriteTypes, F_v1Prim, PatternsPrims: str methods, dict order, sorted/max stability, re.compile/match as the model's parseRe/reMatch, datetime, lexid.next_id, shlex, subprocess calls as trace events); hypotheses where Python and model differ on inputs the callers never pass are explicit in the tie statements",
    "the trusted primitives that are plain str/list/dict/sort/date functions are compared with CPython on every run of every check that has ties (driver op `prim`, harness/props/prims.py: 45 primitives, random arguments, 1,500 calls quick / 30,000 thorough)",
    "Model/Update.lean composes the hand models of the version decision, dirty check, rewrite phase and VCS plan into ONE model of `bumpver update`; tied to the real CLI by the op update_full (exit code, event trace, file contents)",
    "correspondence check: the executable Lean model (compiled driver) and the real bumpver code run on the same generated inputs; generator quality bounds what it sees",
    "modelled rather than verified: Python re on the fragment bumpver uses, datetime/strftime fields, str.format on command templates, shlex.split, lexid.next_id, list.sort stability, tuple comparison",
    "not modelled (parameters): configparser, toml, difflib, click option parsing, UTF-8 codec/open(), glob, subprocess, git, hg",
]


def log(*a):
    print(*a, file=sys.stderr, flush=True)


class Rng(random.Random):
    pass


def get_seed():
    try:
        return int(os.environ.get("VERIF_SEED", "20260929"))
    except ValueError:
        return 20260929


# ---------------------------------------------------------------------------
# Lean side


def strip_lean_comments(src):
    # remove /- ... -/ (nested not handled beyond depth used here) and -- comments
    out = []
    i = 0
    depth = 0
    n = len(src)
    while i < n:
        if src.startswith("/-", i):
            depth += 1
            i += 2
        elif depth and src.startswith("-/", i):
            depth -= 1
            i += 2
        elif depth:
            i += 1
        elif src.startswith("--", i):
            j = src.find("\n", i)
            i = n if j < 0 else j
        else:
            out.append(src[i])
            i += 1
    return "".join(out)


def registered_ties(pid):
    """source-level ties registered for this property in harness/ties.json: [{"module": "Tie_x", "theorem": "tie_x", "python": "mod.func"}]
    (ties that Props/<pid>.lean imports itself are audited through Audit/<pid>.lean and need no entry here)"""
    p = os.path.join(VERIF, "harness", "ties.json")
    if not os.path.exists(p):
        return []
    out = []
    for t in json.load(open(p)).get(pid, []):
        t = dict(t)
        if "." not in t["module"]:
            t["module"] = "BumpverVerif.Proofs." + t["module"]          # short form for Proofs/Tie_<name>.lean
        out.append(t)
    return out


def import_closure(pid):
    """Lean source files in the import closure of Props/<pid>.lean and of the property's registered ties (project files only)."""
    seen, todo = set(), ["BumpverVerif.Props.%s" % pid] + [t["module"] for t in registered_ties(pid)]
    while todo:
        m = todo.pop()
        if m in seen:
            continue
        p = os.path.join(LEAN, *m.split(".")) + ".lean"
        if not os.path.exists(p):
            continue
        seen.add(m)
        for mm in re.findall(r"^import\s+(BumpverVerif\.\S+)", open(p, encoding="utf-8").read(), re.M):
            todo.append(mm)
    return sorted(seen)


def grep_forbidden(pid):
    """Grep the Lean sources the property depends on (comments stripped) for forbidden constructs."""
    hits = []
    files = [os.path.join(LEAN, *m.split(".")) + ".lean" for m in import_closure(pid)]
    files.append(os.path.join(LEAN, "Driver.lean"))
    for p in files:
        txt = strip_lean_comments(open(p, encoding="utf-8").read())
        for m in FORBIDDEN.finditer(txt):
            hits.append((os.path.relpath(p, VERIF), m.group(0).strip()))
    return hits


class BuildResult:
    def __init__(self):
        self.ok = True
        self.stage = None  # which stage failed
        self.output = ""
        self.theorems = {}  # name -> axioms list
        self.bad_axioms = {}
        self.forbidden = []
        self.translator = None
        self.driver_ok = True
        self.failed_modules = []
        self.failed_ties = []


def run_translator():
    p = subprocess.run([PY, os.path.join(VERIF, "harness", "translate.py")], capture_output=True, text=True)
    return p.returncode, p.stdout + p.stderr


BUILD_TIMEOUT_S = int(os.environ.get("VERIF_BUILD_TIMEOUT", "600"))
BUILD_MEM_KB = int(os.environ.get("VERIF_BUILD_MEM_GB", "24")) * (1 << 20)


def _session_rss_kb(sid):
    total = 0
    for d in os.listdir("/proc"):
        if not d.isdigit():
            continue
        try:
            if os.getsid(int(d)) != sid:
                continue
            with open("/proc/%s/status" % d) as f:
                for line in f:
                    if line.startswith("VmRSS:"):
                        total += int(line.split()[1])
                        break
        except (OSError, ValueError):
            pass
    return total


def lake_build(targets, timeout=None):
    """`lake build` under a wall-clock limit and a resident-memory watchdog: a kernel `decide` over a table that no
    longer satisfies its obligation can otherwise run for very long and take tens of GB (Lean re-evaluates a failing
    `decide` with the elaborator to print the reason).  A stopped build counts as a build that did not succeed."""
    import signal, threading
    timeout = timeout or BUILD_TIMEOUT_S
    p = subprocess.Popen(["lake", "build"] + targets, cwd=LEAN, stdout=subprocess.PIPE, stderr=subprocess.STDOUT, text=True,
                         start_new_session=True)
    chunks = []
    t = threading.Thread(target=lambda: chunks.append(p.stdout.read()), daemon=True)
    t.start()
    t0 = time.time()
    why = None
    while p.poll() is None:
        time.sleep(1.0)
        if time.time() - t0 > timeout:
            why = "exceeded %d s" % timeout
        elif _session_rss_kb(p.pid) > BUILD_MEM_KB:
            why = "exceeded %d GB of memory" % (BUILD_MEM_KB >> 20)
        if why:
            try:
                os.killpg(p.pid, signal.SIGKILL)
            except ProcessLookupError:
                pass
            break
    p.wait()
    t.join(timeout=5)
    out = "".join(c or "" for c in chunks)
    if why:
        return 124, out + "\nerror: lake build of %s %s and was stopped (obligation not discharged)\n" % (targets, why)
    return p.returncode, out


def build_and_audit(pid, tier="quick"):
    """translator -> lake build Props.<pid> + driver -> #print axioms audit."""
    res = BuildResult()
    os.makedirs(os.path.join(LEAN, ".lake"), exist_ok=True)
    lockf = open(os.path.join(LEAN, ".lake", "verif.buildlock"), "w")
    fcntl.flock(lockf, fcntl.LOCK_EX)
    try:
        rc, out = run_translator()
        res.translator = out
        if rc != 0:
            res.ok = False
            res.stage = "translator"
            res.output = out
        # driver first (model), then the property's theorems
        rc, out = lake_build(["driver"])
        if rc != 0:
            res.ok = False
            res.driver_ok = False
            res.stage = res.stage or "model-build"
            res.output += out
        rc, out = lake_build([f"BumpverVerif.Props.{pid}"])
        if rc != 0:
            res.ok = False
            res.stage = res.stage or "theorem-build"
            res.output += out
            res.failed_modules = sorted(set(re.findall(r"error: (?:\S*?/)?(BumpverVerif/\S+?\.lean)", out)))
        # the property's registered source-level ties (generated definition = hand model), each its own obligation
        ties = registered_ties(pid)
        if ties:
            rc, out = lake_build(sorted(set(t["module"] for t in ties)))
            if rc != 0:
                res.ok = False
                res.stage = res.stage or "tie-build"
                res.output += out
                failed = sorted(set(re.findall(r"error: (?:\S*?/)?(BumpverVerif/\S+?\.lean)", out)))
                res.failed_modules = sorted(set(res.failed_modules) | set(failed))
                def _hit(t):
                    base = t["module"].rsplit(".", 1)[-1]
                    return any(("/" + base + ".lean") in f or (base.startswith("Tie_") and ("F_" + base[4:] + ".lean") in f) for f in failed)
                res.failed_ties = [t for t in ties if _hit(t)] or ties
    finally:
        fcntl.flock(lockf, fcntl.LOCK_UN)
        lockf.close()
    if res.stage in (None,):
        audit = os.path.join(LEAN, "BumpverVerif", "Audit", f"{pid}.lean")
        p = subprocess.run(["lake", "env", "lean", audit], cwd=LEAN, capture_output=True, text=True)
        txt = p.stdout + p.stderr
        if p.returncode != 0:
            res.ok = False
            res.stage = "audit"
            res.output += txt
        ties = registered_ties(pid)
        if ties:
            af = os.path.join(LEAN, ".lake", "verif-tie-audit-%s.lean" % pid)
            with open(af, "w") as f:
                f.write("".join("import %s\n" % m for m in sorted(set(t["module"] for t in ties))) + "open BV\n" +
                        "".join("#print axioms %s\n" % t["theorem"] for t in ties))
            p2 = subprocess.run(["lake", "env", "lean", af], cwd=LEAN, capture_output=True, text=True)
            txt += "\n" + p2.stdout + p2.stderr
            if p2.returncode != 0:
                res.ok = False
                res.stage = "audit"
                res.output += p2.stdout + p2.stderr
        for m in re.finditer(r"'([^']+)' depends on axioms: \[([^\]]*)\]", txt.replace("\n", " ")):
            res.theorems[m.group(1)] = [a.strip() for a in m.group(2).split(",") if a.strip()]
        for m in re.finditer(r"'([^']+)' does not depend on any axioms", txt):
            res.theorems[m.group(1)] = []
        for name, axs in res.theorems.items():
            bad = [a for a in axs if a not in ALLOWED_AXIOMS]
            if bad:
                res.bad_axioms[name] = bad
        if res.bad_axioms or not res.theorems:
            res.ok = False
            res.stage = res.stage or "audit"
    res.forbidden = grep_forbidden(pid)
    if res.forbidden:
        res.ok = False
        res.stage = res.stage or "forbidden-construct"
    if tier == "thorough" and res.ok:
        mods = [f"BumpverVerif.Props.{pid}"]
        p = subprocess.run(["lake", "env", "leanchecker"] + mods, cwd=LEAN, capture_output=True, text=True)
        res.leanchecker = (p.returncode, (p.stdout + p.stderr)[-2000:])
        if p.returncode != 0:
            res.ok = False
            res.stage = "leanchecker"
            res.output += p.stdout + p.stderr
    return res


class Driver:
    """The compiled Lean model, driven over a JSON-lines pipe (batch mode)."""

    def __init__(self):
        self.path = os.path.join(LEAN, ".lake", "build", "bin", "driver")

    def available(self):
        return os.path.exists(self.path)

    def run(self, ops, timeout=3000):
        if not ops:
            return []
        data = "\n".join(json.dumps(o, ensure_ascii=True) for o in ops) + "\n"
        p = subprocess.run([self.path], input=data.encode("utf-8"), capture_output=True, timeout=timeout)
        lines = p.stdout.decode("utf-8").splitlines()
        outs = []
        for ln in lines:
            try:
                outs.append(json.loads(ln))
            except Exception:
                outs.append({"driver_error": "bad json: " + ln[:200]})
        while len(outs) < len(ops):
            outs.append({"driver_error": "no output (driver died?) rc=%s %s" % (p.returncode, p.stderr.decode("utf-8", "replace")[-300:])})
        return outs


def canon(x):
    return json.dumps(x, sort_keys=True, ensure_ascii=True)


# ---------------------------------------------------------------------------
# known findings


def load_known_findings(pid):
    p = os.path.join(VERIF, "known_findings.json")
    if not os.path.exists(p):
        return []
    data = json.load(open(p))
    return [f for f in data.get("findings", []) if f.get("property") == pid or pid in f.get("also_properties", [])]


# ---------------------------------------------------------------------------
# result plumbing


class Check:
    """Collects what a run covered and decides its outcome."""

    def __init__(self, pid, tier):
        self.pid = pid
        self.tier = tier
        self.seed = get_seed()
        self.rng = random.Random(self.seed)
        self.t0 = time.time()
        self.evaluations = 0
        self.nontrivial = set()
        self.samples = []
        self.traces = 0
        self.disagreements = []
        self.unsupported = 0
        self.violations = []  # (what, replay dict)
        self.known_hits = {}  # finding id -> count
        self.dist = {}
        self.exhaustive = False
        self.extra = {}
        self.notes = []
        self.build = None

    def count(self, key, n=1):
        self.dist[key] = self.dist.get(key, 0) + n

    def sample(self, x, cap=6):
        if len(self.samples) < cap:
            self.samples.append(x)

    # -- correspondence -------------------------------------------------
    def correspond(self, ops, impl_fn, driver, label=None, nontrivial_fn=None):
        """Run the same op lines through the implementation and the model; diff."""
        ops = list(ops)
        impl_out = []
        for o in ops:
            try:
                impl_out.append(impl_fn(o))
            except Exception as ex:  # adapter bug, not an impl answer
                impl_out.append({"adapter_error": "%s: %s" % (type(ex).__name__, ex)})
        model_out = driver.run(ops) if driver.available() else [{"driver_error": "driver not built"}] * len(ops)
        bad = []
        for o, a, b in zip(ops, impl_out, model_out):
            self.evaluations += 1
            self.traces += 1
            if "unsupported" in b:
                self.unsupported += 1
                self.count("model_unsupported")
                continue
            key = canon(o)
            if canon(a) != canon(b):
                bad.append({"op": o, "impl": a, "model": b})
                self.count("disagree:" + (label or o.get("op", "?")))
            else:
                nt = nontrivial_fn(o, a) if nontrivial_fn else True
                if nt:
                    self.nontrivial.add(hashlib.sha1(key.encode()).hexdigest())
                self.count("agree:" + (label or o.get("op", "?")))
                self.sample({"op": o, "result": a})
        self.disagreements.extend(bad)
        return bad

    # -- oracle -----------------------------------------------------------
    def oracle_case(self, case, verdict, region=None):
        """verdict: None (property holds here) or a string describing the failure.
        region: id of the known finding covering this case, if any."""
        self.evaluations += 1
        key = hashlib.sha1(canon(case).encode()).hexdigest()
        self.nontrivial.add(key)
        if verdict is None:
            return
        if region is not None:
            self.known_hits[region] = self.known_hits.get(region, 0) + 1
            return
        self.violations.append((verdict, case))

    # -- finish -----------------------------------------------------------
    def write_replay(self, name, payload):
        d = os.path.join(VERIF, "replays")
        os.makedirs(d, exist_ok=True)
        path = os.path.join(d, name)
        with open(path, "w") as f:
            json.dump(payload, f, indent=1, sort_keys=True, ensure_ascii=True)
        return os.path.relpath(path, VERIF)

    def finish(self, known_lines=(), obligations_note=""):
        b = self.build
        wall = time.time() - self.t0
        lines = []
        exit_code = 0
        for kl in known_lines:
            print("KNOWN-FINDING: property=%s %s" % (self.pid, kl), flush=True)
        nviol = 0
        if self.violations:
            seen = set()
            for what, case in self.violations[:5]:
                h = hashlib.sha1(canon(case).encode()).hexdigest()[:10]
                if h in seen:
                    continue
                seen.add(h)
                rp = self.write_replay("%s-%s.json" % (self.pid, h), {
                    "property": self.pid, "kind": "failing-input", "what": what, "case": case,
                    "seed": self.seed, "tier": self.tier,
                    "replay": "./check %s --replay replays/%s-%s.json" % (self.pid, self.pid, h)})
                print("VIOLATION property=%s replay=%s" % (self.pid, rp), flush=True)
                log("  " + what)
                nviol += 1
            exit_code = 1
        if self.disagreements:
            self.write_replay("%s-disagreements.json" % self.pid, {"property": self.pid, "seed": self.seed,
                              "disagreements": self.disagreements[:40]})
        broken = []
        if b is not None and not b.ok:
            broken.append("build/audit stage '%s' failed: modules=%s bad_axioms=%s forbidden=%s" % (
                b.stage, b.failed_modules, b.bad_axioms, b.forbidden[:5]))
            for t in getattr(b, "failed_ties", []):
                if t.get("python"):
                    broken.append("source-level tie %s no longer checks: the Lean definition regenerated from %s is not (provably) the hand model any more" % (
                        t["theorem"], t["python"]))
                else:
                    broken.append("theorem %s (%s) no longer checks" % (t["theorem"], t["module"]))
        if self.disagreements:
            broken.append("correspondence: %d disagreement(s) between model and implementation" % len(self.disagreements))
        if broken and not self.violations:
            name = "%s-obl-%s.json" % (self.pid, hashlib.sha1(canon(broken).encode()).hexdigest()[:8])
            rp = self.write_replay(name, {
                "property": self.pid, "kind": "no-failing-input-found",
                "broken": broken,
                "build_output_tail": (b.output[-6000:] if b is not None else ""),
                "disagreements": self.disagreements[:10],
                "seed": self.seed, "tier": self.tier,
                "note": "a proof obligation or the model/implementation correspondence no longer checks; the search of the implementation found no input violating the property itself"})
            print("VIOLATION property=%s replay=%s no-failing-input-found" % (self.pid, rp), flush=True)
            for x in broken:
                log("  " + x)
            nviol += 1
            exit_code = 1
        elif broken:
            for x in broken:
                log("  also broken: " + x)
        obligations = len(b.theorems) if b is not None else 0
        discharged = obligations if (b is not None and b.ok) else (
            len([t for t in b.theorems if t not in b.bad_axioms]) if b is not None and b.stage in ("audit",) else 0)
        ev = {
            "property_id": self.pid,
            "tier": self.tier,
            "seed": self.seed,
            "level": "proof",
            "coverage": {
                "obligations": obligations,
                "discharged": discharged,
                "checker_cmd": "cd lean && lake build BumpverVerif.Props.%s driver && lake env lean BumpverVerif/Audit/%s.lean%s" % (
                    self.pid, self.pid, " && lake env leanchecker BumpverVerif.Props.%s" % self.pid if self.tier == "thorough" else ""),
                "trusted_base": TRUSTED_BASE,
                "theorems": (b.theorems if b is not None else {}),
                "evaluations": self.evaluations,
                "distinct_nontrivial": len(self.nontrivial),
                "rule": self.extra.get("rule", "see explanation"),
                "samples": self.samples[:8] or ["(none)"],
                "traces_validated_against_impl": self.traces,
                "disagreements_checked": len(self.disagreements),
                "model_unsupported": self.unsupported,
                "input_distribution": self.dist,
                "known_finding_hits": self.known_hits,
                "exhaustive": bool(self.exhaustive),
                "explanation": obligations_note,
                "build_stage_failed": (b.stage if b is not None else None),
            },
            "assumptions": self.extra.get("assumptions", []),
            "wall_s": round(wall, 2),
            "violations": nviol,
        }
        for k, v in self.extra.items():
            if k not in ("rule", "assumptions"):
                ev["coverage"][k] = v
        os.makedirs(os.path.join(VERIF, "evidence"), exist_ok=True)
        with open(os.path.join(VERIF, "evidence", self.pid + ".json"), "w") as f:
            json.dump(ev, f, indent=1, ensure_ascii=True, default=str)
        log("%s %s: obligations %d/%d, evaluations %d, distinct %d, disagreements %d, unsupported %d, known-hits %s, %.1fs, exit %d" % (
            self.pid, self.tier, discharged, obligations, self.evaluations, len(self.nontrivial),
            len(self.disagreements), self.unsupported, self.known_hits, wall, exit_code))
        return exit_code
