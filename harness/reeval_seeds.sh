#!/bin/sh
# re-evaluates every confirmed seeded change under /verif/seeded with the CURRENT checks (isolated mode: private copies, nothing in
# /repo or /verif is touched except seeded/<name>/meta.json), N at a time; prints one line per seed
# usage: harness/reeval_seeds.sh [N]
cd "$(dirname "$0")/.." || exit 2
N="${1:-8}"
export SEED_EVAL_ISOLATED=1
ls -d seeded/C*/ | while read d; do
  name=$(basename "$d")
  pid=$(echo "$name" | cut -c1-3)
  extra=$(python3 -c "
import json,sys
m=json.load(open('$d/meta.json'))
print(' '.join(c for c in m.get('checks_with_change',{}) if c != '$pid'))" 2>/dev/null)
  echo "$name $pid $extra"
done | xargs -P "$N" -L 1 sh -c '/venv/bin/python harness/seed_eval.py "seeded/$0" "$1" "$0" $2 $3 $4 > "/tmp/reeval-$0.log" 2>&1; python3 - "$0" <<PY
import json,sys
m=json.load(open("seeded/%s/meta.json" % sys.argv[1]))
print(sys.argv[1], "confirmed=%s" % m.get("confirmed"), "caught_by=%s" % ",".join(m.get("caught_by", [])))
PY'
