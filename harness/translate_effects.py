#!/venv/bin/python
"""Python -> Lean translator for the EFFECTFUL step-sequencing functions of bumpver.

For every entry of the signature table `EFUNCS` the Python source is read with `ast` (never imported)
from $VERIF_REPO/src/bumpver (default /repo), the function BODY is translated statement by statement
into a Lean definition in the explicit effect monad `BV.Eff` (lean/BumpverVerif/Model/Eff.lean) and
written to lean/BumpverVerif/Gen/F_<name>.lean (namespace BV.GenE).  The theorems of
lean/BumpverVerif/Proofs/Tie_*.lean prove the generated definitions equal to (a refinement of) the
hand-written plan model (Model/Plan.lean `commitPhase`, `getTags`, `getRemote`, `isUsable`, `plan`;
Model/Vcs.lean `statusParse`, `assertNotDirty`) for ALL configurations and ALL failure positions.

The pure expression / typing / truthiness / narrowing machinery is inherited from
`translate_funcs.FuncTranslator`; this module adds the statements and calls that have effects.  The
supported subset, the table of effects and everything that is abstracted are documented in
harness/TRANSLATE_EFFECTS.md.  Anything outside the subset raises `Untranslatable`; the output file
then holds only a comment `UNTRANSLATABLE: ...`, so that exactly the ties that depend on that function
stop compiling.
"""
import ast
import os
import sys

HERE = os.path.dirname(os.path.abspath(__file__))
sys.path.insert(0, HERE)

import translate_funcs as TF                                               # noqa: E402
from translate_funcs import (Untranslatable, Var, BOOL, INT, NAT, LIT, STR, NONE, OPT, LIST,  # noqa: E402
                             TUP, REC, ENUM, OPAQUE, lean_ident, indent, sha256, _nl, _arm)

UNIT = ("unit",)            # the value of a function that returns None
ERASED = ("erased",)        # a value the model does not look at (temp files, environments, byte strings)
GROUPDICT = ("groupdict",)  # match.groupdict() of a BRANCH_RE match
MATCH = ("match",)          # a BRANCH_RE match object
EXC = ("exc",)              # the exception bound by `except ... as ex`
PAIRS = ("pairs",)          # marker used internally

GEN_NS = "BV.GenE"
TYPES_FILE = "F_effTypes.lean"
TYPES_MODULE = "BumpverVerif.Gen.F_effTypes"


def lean_chars(s):
    """a Lean `Str` (= List Char) literal, as an explicit list of characters.  (`"...".toList` inside the
    condition of an `if` makes `simp` rebuild the Decidable instance through `String.toList`, which is
    very slow; explicit lists avoid that.)"""
    out = []
    for ch in s:
        o = ord(ch)
        if ch == "\\":
            out.append("'\\\\'")
        elif ch == "'":
            out.append("'\\''")
        elif ch == "\n":
            out.append("'\\n'")
        elif ch == "\t":
            out.append("'\\t'")
        elif ch == "\r":
            out.append("'\\r'")
        elif 32 <= o < 127:
            out.append("'%s'" % ch)
        else:
            out.append("'\\u{%x}'" % o)
    return "([" + ", ".join(out) + "] : Str)" if not out else "[" + ", ".join(out) + "]"


def lean_string(s):
    """a Lean `String` literal (names of VCS subcommands, group names)"""
    for ch in s:
        if not (32 <= ord(ch) < 127) or ch in '"\\':
            raise ValueError("unsupported character in a name: %r" % s)
    return '"%s"' % s


# ----------------------------------------------------------------------------------
# exception classes (`except X:` / `raise X(...)`)  ->  BV.ExcClass / BV.Stop
# ----------------------------------------------------------------------------------
EXC_CLASSES = {
    "BaseException": "baseException", "Exception": "exception",
    "OSError": "osError", "IOError": "osError",
    "sp.CalledProcessError": "calledProcessError", "subprocess.CalledProcessError": "calledProcessError",
    "ValueError": "valueError",
    "rewrite.NoPatternMatch": "noPatternMatch", "NoPatternMatch": "noPatternMatch",
}
RAISABLE = {"OSError": "osError", "IOError": "osError", "ValueError": "valueError"}

# calls whose value and effect the model does not look at (documented in TRANSLATE_EFFECTS.md)
ERASED_FUNCS = {
    "os.environ.copy", "tempfile.NamedTemporaryFile", "os.unlink",
    "v2version.parse_version_info", "v1version.parse_version_info",
    "sys.stdout.write", "sys.stderr.write",
}
REWRITE_FUNCS = {"v2rewrite.rewrite_files", "v1rewrite.rewrite_files"}

# ----------------------------------------------------------------------------------
# the signature table
# ----------------------------------------------------------------------------------
VCSAPI = REC("VcsApi")
CONFIG = REC("Config")

EFUNCS = [
    dict(name="apiGetRemote", file="vcs.py", cls="VCSAPI", func="get_remote",
         params=[("self", VCSAPI)], ret=OPT(STR)),
    dict(name="apiIsUsable", file="vcs.py", cls="VCSAPI", func="is_usable", prop=True,
         params=[("self", VCSAPI)], ret=BOOL),
    dict(name="apiFetch", file="vcs.py", cls="VCSAPI", func="fetch",
         params=[("self", VCSAPI)], ret=UNIT),
    dict(name="apiStatus", file="vcs.py", cls="VCSAPI", func="status",
         params=[("self", VCSAPI), ("required_files", LIST(STR))], ret=LIST(STR)),
    dict(name="apiLsTags", file="vcs.py", cls="VCSAPI", func="ls_tags",
         params=[("self", VCSAPI)], ret=LIST(STR)),
    dict(name="apiLsTagsBranch", file="vcs.py", cls="VCSAPI", func="ls_tags_branch",
         params=[("self", VCSAPI)], ret=LIST(STR)),
    dict(name="apiAdd", file="vcs.py", cls="VCSAPI", func="add",
         params=[("self", VCSAPI), ("path", STR)], ret=UNIT),
    dict(name="apiCommit", file="vcs.py", cls="VCSAPI", func="commit",
         params=[("self", VCSAPI), ("message", STR)], ret=UNIT),
    dict(name="apiTag", file="vcs.py", cls="VCSAPI", func="tag",
         params=[("self", VCSAPI), ("tag_name", STR), ("tag_message", STR)], ret=UNIT),
    dict(name="apiPushTag", file="vcs.py", cls="VCSAPI", func="push_tag",
         params=[("self", VCSAPI), ("tag_name", STR)], ret=UNIT),
    dict(name="apiPush", file="vcs.py", cls="VCSAPI", func="push",
         params=[("self", VCSAPI)], ret=UNIT),
    dict(name="getVcsApi", file="vcs.py", func="get_vcs_api", params=[], ret=VCSAPI),
    dict(name="assertNotDirty", file="vcs.py", func="assert_not_dirty",
         params=[("vcs_api", VCSAPI), ("filepaths", LIST(STR)), ("allow_dirty", BOOL)], ret=UNIT),
    dict(name="vcsCommit", file="vcs.py", func="commit", generic=True,
         params=[("cfg", CONFIG), ("vcs_api", VCSAPI), ("filepaths", LIST(STR)), ("new_version", STR),
                 ("commit_message", STR), ("tag_message", STR)], ret=UNIT),
    dict(name="getTags", file="vcs.py", func="get_tags",
         params=[("fetch", BOOL), ("scope", ENUM("TagScope"))], ret=LIST(STR)),
    dict(name="cliUpdate", file="cli.py", func="_update", generic=True,
         params=[("cfg", CONFIG), ("new_version", STR), ("commit_message", STR), ("tag_message", STR),
                 ("allow_dirty", BOOL)], ret=UNIT,
         # `set(cfg.file_patterns.keys())`: the configured files (a set; the model takes a list)
         externs={"set(cfg.file_patterns.keys())": ("filepaths_x", LIST(STR))}),
    dict(name="cliTryUpdate", file="cli.py", func="_try_update", generic=True,
         params=[("cfg", CONFIG), ("new_version", STR), ("commit_message", STR), ("tag_message", STR),
                 ("allow_dirty", BOOL)], ret=UNIT,
         extra_params=[("filepaths_x", LIST(STR))]),
]
BY_NAME = {d["name"]: d for d in EFUNCS}
METHODS = {d["func"]: d for d in EFUNCS if d.get("cls") == "VCSAPI"}
# module-level functions: (module alias or None for "same file", python name) -> spec
MODFUNCS = {}
for _d in EFUNCS:
    if not _d.get("cls"):
        MODFUNCS[(_d["file"][:-3], _d["func"])] = _d


class Bind:
    """one `Eff.bind term (fun var => ...)`; `var` None = the value is not used"""
    def __init__(self, var, term, type_):
        self.var = var
        self.term = term
        self.type = type_


def wrap_binds(binds, inner):
    for b in reversed(binds):
        inner = "Eff.bind %s (fun %s =>\n%s)" % (b.term, b.var if b.var else "_", inner)
    return inner


class EffTranslator(TF.FuncTranslator):
    def __init__(self, spec, sources):
        TF.FuncTranslator.__init__(self, spec, sources)
        self.fn = (spec["cls"] + "." if spec.get("cls") else "") + spec["func"]
        self.ret_stack = []         # how `return v` is rendered in the current construct
        self.aux_defs = []          # named loop bodies
        self.handler_exc = []       # the exception variables of the enclosing handlers (bare `raise`)
        self.deps = []              # generated definitions this one calls
        self.in_effect_loop = 0

    # ---------------------------------------------------------------- type environment
    def record(self, name):
        if name == "VcsApi":
            if name not in self.records:
                self.check_vcsapi_class()
                self.records[name] = dict(lean="VcsApi", fields=[("name", "name", STR)], pyorder=["name"])
            return self.records[name]
        return TF.FuncTranslator.record(self, name)

    def check_vcsapi_class(self):
        """`VCSAPI.__init__(self, name, subcommands=None)` stores `name`; `subcommands` defaults to the table"""
        _, node = self.src.find("vcs.py", ast.ClassDef, "VCSAPI")
        if node is None:
            self.bad(None, "class VCSAPI not found in vcs.py")
        init = [n for n in node.body if isinstance(n, ast.FunctionDef) and n.name == "__init__"]
        if not init:
            self.bad(node, "VCSAPI has no __init__")
        args = [a.arg for a in init[0].args.args]
        if args != ["self", "name", "subcommands"]:
            self.bad(init[0], "VCSAPI.__init__ takes %s, expected (self, name, subcommands)" % args)
        body = [s for s in init[0].body if not self.is_docstring(s)]
        want = "self.name = name"
        if not body or ast.unparse(body[0]) != want:
            self.bad(init[0], "VCSAPI.__init__ must start with `%s`" % want)

    @staticmethod
    def is_docstring(st):
        return isinstance(st, ast.Expr) and isinstance(st.value, ast.Constant) and isinstance(st.value.value, str)

    def lean_type(self, t):
        k = t[0]
        if k == "unit":
            return "Unit"
        if k == "groupdict" or k == "match":
            return "GroupDict"
        if k == "exc":
            return "Stop"
        if k == "erased":
            self.bad(None, "an erased value (temp file, environment, bytes) is used where a model value is needed")
        if k == "rec" and t[1] == "VcsApi":
            return "VcsApi"
        return TF.FuncTranslator.lean_type(self, t)

    def unify(self, a, b):
        if a == b:
            return a
        return TF.FuncTranslator.unify(self, a, b)

    def truthy_of(self, lean, t, node):
        if t == OPT(VCSAPI) or (t[0] == "opt" and t[1][0] == "rec"):
            return "(%s != none)" % lean
        if t[0] == "erased":
            self.bad(node, "truth value of an erased value")
        return TF.FuncTranslator.truthy_of(self, lean, t, node)

    # ---------------------------------------------------------------- erased values
    def dotted(self, node):
        try:
            return ast.unparse(node)
        except Exception:      # pragma: no cover
            return ""

    def is_erased(self, node, env):
        """expressions the model does not look at"""
        if isinstance(node, ast.Name):
            return node.id in env and env[node.id].type == ERASED
        if isinstance(node, ast.Call):
            d = self.dotted(node.func)
            if d in ERASED_FUNCS:
                return True
            if isinstance(node.func, ast.Attribute):
                if node.func.attr == "encode":
                    return True
                if self.is_erased(node.func.value, env):
                    return True
            return False
        if isinstance(node, ast.Attribute):
            if self.is_erased(node.value, env):
                return True
            if isinstance(node.value, ast.Name) and node.value.id in env and env[node.value.id].type == EXC \
                    and node.attr in ("stdout", "cmd", "output", "returncode"):
                return True
            if self.dotted(node) == "self.subcommands":
                return True
            return False
        if isinstance(node, ast.Subscript):
            return self.is_erased(node.value, env)
        return False

    def subcommand_of(self, node, env):
        """`self.subcommands['x']`, `self.subcommands['x'].split()`, or a variable holding one -> 'x'"""
        if isinstance(node, ast.Name) and node.id in env:
            return getattr(env[node.id], "subcommand", None)
        if isinstance(node, ast.Call) and isinstance(node.func, ast.Attribute) and node.func.attr == "split" \
                and not node.args and not node.keywords:
            return self.subcommand_of(node.func.value, env)
        if isinstance(node, ast.Subscript) and self.dotted(node.value) == "self.subcommands" \
                and isinstance(node.slice, ast.Constant) and isinstance(node.slice.value, str):
            return node.slice.value
        return None

    def hook_kind_of(self, node, env):
        """which hook a path expression denotes: the Config field it is read from"""
        if isinstance(node, ast.Attribute) and node.attr in ("pre_commit_hook", "post_commit_hook"):
            _, t = self.expr(node.value, env)
            if t == CONFIG:
                return "pre" if node.attr == "pre_commit_hook" else "post"
        if isinstance(node, ast.Name) and node.id in env:
            return getattr(env[node.id], "hook_kind", None)
        return None

    # ---------------------------------------------------------------- effects
    READ_ONLY = ("errno", "excstr", "excstderr")     # observations of a caught exception: nothing happens

    def has_effect(self, node, env, readonly_ok=False):
        """does evaluating the expression perform an effect (after its sub-expressions)?
        `readonly_ok`: observations of a caught exception do not count (inside erased calls)"""
        for n in ast.walk(node):
            if isinstance(n, (ast.Call, ast.Attribute)):
                kind = self.effect_kind(n, env)
                if kind is not None and not (readonly_ok and kind[0] in self.READ_ONLY):
                    return True
            if isinstance(n, (ast.ListComp, ast.GeneratorExp, ast.SetComp)) and n.generators \
                    and isinstance(n.generators[0].target, ast.Tuple):
                return True        # tuple unpacking of list items can raise ValueError
        return False

    def effect_kind(self, node, env):
        """a cheap syntactic classification (types of receivers are looked up in env where needed)"""
        if isinstance(node, ast.Attribute) and not isinstance(node.ctx, ast.Store):
            if node.attr in METHODS and METHODS[node.attr].get("prop") and self.static_is(node.value, env, VCSAPI):
                return ("prop", METHODS[node.attr])
            if node.attr == "errno" and self.static_is(node.value, env, EXC):
                return ("errno",)
            if node.attr == "stderr" and self.static_is(node.value, env, EXC):
                return ("excstderr",)
            return None
        if not isinstance(node, ast.Call):
            return None
        f = node.func
        d = self.dotted(f)
        if isinstance(f, ast.Name):
            if f.id in env and env[f.id].type == VCSAPI:
                return ("call",)
            if f.id == "str" and len(node.args) == 1 and self.static_is(node.args[0], env, EXC):
                return ("excstr",)
            if f.id not in env and (self.spec["file"][:-3], f.id) in MODFUNCS:
                return ("func", MODFUNCS[(self.spec["file"][:-3], f.id)])
            return None
        if d == "hooks.run":
            return ("hook",)
        if d == "sys.exit":
            return ("exit",)
        if d in ("sp.call", "subprocess.call"):
            return ("spcall",)
        if d == "os.path.exists":
            return ("exists",)
        if d == "BRANCH_RE.finditer":
            return ("finditer",)
        if d in REWRITE_FUNCS:
            return ("rewrite",)
        if isinstance(f, ast.Attribute):
            if isinstance(f.value, ast.Name) and f.value.id not in env and (f.value.id, f.attr) in MODFUNCS:
                return ("func", MODFUNCS[(f.value.id, f.attr)])
            if f.attr in METHODS and not METHODS[f.attr].get("prop") and self.static_is(f.value, env, VCSAPI):
                return ("method", METHODS[f.attr])
        return None

    def static_is(self, node, env, t):
        """is the static type of a NAME-like expression `t`? (only names and `self`: enough for receivers)"""
        if isinstance(node, ast.Name):
            if node.id not in env:
                return False
            return env[node.id].type == t
        return False

    def mk_effect(self, node, env):
        """-> (lean term of type Eff τ, τ) for an effectful Call/Attribute whose sub-expressions are pure"""
        kind = self.effect_kind(node, env)
        k = kind[0]
        if k == "prop":
            spec = kind[1]
            recv, _ = self.expr(node.value, env)
            self.need(spec)
            return "(%s %s)" % (spec["name"], recv), spec["ret"]
        if k == "errno":
            v, _ = self.expr(node.value, env)
            return "(Eff.excErrno %s)" % v, INT
        if k == "excstderr":
            # `ex.stderr` of a caught CalledProcessError: bytes or None (bytes are modelled as Str)
            v, _ = self.expr(node.value, env)
            return "(Eff.excStderr %s)" % v, OPT(STR)
        if k == "excstr":
            v, _ = self.expr(node.args[0], env)
            return "(Eff.excStr %s)" % v, STR
        if k == "call":
            if not node.args or not (isinstance(node.args[0], ast.Constant) and isinstance(node.args[0].value, str)):
                self.bad(node, "the subcommand name of `self(...)` must be a string literal")
            if len(node.args) != 1:
                self.bad(node, "`self(name, **kwargs)` takes one positional argument")
            kws = []
            for kw in node.keywords:
                if kw.arg is None:
                    self.bad(node, "`**kwargs` in a VCS invocation")
                if kw.arg == "env":
                    continue                       # the process environment: not a template argument
                if self.is_erased(kw.value, env):
                    continue                       # e.g. the temp file holding the hg commit message
                v, t = self.expr(kw.value, env)
                if t != STR:
                    self.bad(node, "template argument `%s` of type %r (str expected; Optional needs narrowing)" % (kw.arg, t))
                kws.append("(%s, %s)" % (lean_string(kw.arg), v))
            return "(Eff.call %s [%s])" % (lean_string(node.args[0].value), ", ".join(kws)), STR
        if k == "hook":
            if len(node.args) != 3 or node.keywords:
                self.bad(node, "hooks.run(path, old_version, new_version)")
            hk = self.hook_kind_of(node.args[0], env)
            if hk is None:
                self.bad(node, "cannot tell which hook `%s` is (expected cfg.pre_commit_hook / cfg.post_commit_hook)"
                         % self.dotted(node.args[0]))
            vals = []
            for a in node.args:
                v, t = self.expr(a, env)
                if t != STR:
                    self.bad(node, "hooks.run argument of type %r" % (t,))
                vals.append(v)
            return "(Eff.hook .%s %s %s %s)" % (hk, vals[0], vals[1], vals[2]), UNIT
        if k == "exit":
            if len(node.args) != 1 or not (isinstance(node.args[0], ast.Constant) and isinstance(node.args[0].value, int)
                                           and not isinstance(node.args[0].value, bool) and node.args[0].value >= 0):
                self.bad(node, "sys.exit needs a non-negative integer literal")
            return "(Eff.exit %d)" % node.args[0].value, ("never",)
        if k == "spcall":
            if not node.args:
                self.bad(node, "sp.call without a command")
            name = self.subcommand_of(node.args[0], env)
            if name is None:
                self.bad(node, "cannot tell which subcommand `sp.call(%s)` runs" % self.dotted(node.args[0]))
            return "(Eff.spCall %s)" % lean_string(name), INT
        if k == "exists":
            a = node.args[0] if len(node.args) == 1 else None
            # os.path.exists(f".{self.name}")
            if not (isinstance(a, ast.JoinedStr) and len(a.values) == 2 and isinstance(a.values[0], ast.Constant)
                    and a.values[0].value == "." and isinstance(a.values[1], ast.FormattedValue)
                    and a.values[1].conversion == -1 and a.values[1].format_spec is None):
                self.bad(node, "only `os.path.exists(f\".{name}\")` is modelled")
            v, t = self.expr(a.values[1].value, env)
            if t != STR:
                self.bad(node, "os.path.exists on a name of type %r" % (t,))
            return "(Eff.dotDirExists %s)" % v, BOOL
        if k == "finditer":
            if len(node.args) != 1 or node.keywords:
                self.bad(node, "BRANCH_RE.finditer(text)")
            v, t = self.expr(node.args[0], env)
            if t != STR:
                self.bad(node, "BRANCH_RE.finditer on %r" % (t,))
            return "(Eff.branchMatches %s)" % v, LIST(MATCH)
        if k == "rewrite":
            return "Eff.rewriteFiles", UNIT
        if k in ("func", "method"):
            spec = kind[1]
            self.need(spec)
            params = list(spec["params"])
            vals = {}
            pos = list(node.args)
            if k == "method":
                recv, _ = self.expr(node.func.value, env)
                vals["self"] = (recv, VCSAPI)
                names = [p for p, _ in params[1:]]
            else:
                names = [p for p, _ in params]
            if len(pos) > len(names):
                self.bad(node, "too many arguments for %s" % spec["func"])
            for n_, a in zip(names, pos):
                vals[n_] = self.expr(a, env)
            for kw in node.keywords:
                if kw.arg is None or kw.arg not in names or kw.arg in vals:
                    self.bad(node, "bad keyword argument `%s` for %s" % (kw.arg, spec["func"]))
                vals[kw.arg] = self.expr(kw.value, env)
            args = []
            for p, t in params:
                if p not in vals:
                    dflt = self.param_default(spec, p)
                    if dflt is None:
                        self.bad(node, "argument `%s` of %s is missing" % (p, spec["func"]))
                    vals[p] = dflt
                v, vt = vals[p]
                args.append(self.coerce(v, vt, t, node))
            for ln, t in self.extra_params_of(spec):
                mine = dict(self.extra_params_of(self.spec))
                if ln not in mine or mine[ln] != t:
                    self.bad(node, "the callee %s needs the abstracted parameter `%s`, which this function does not have"
                             % (spec["func"], ln))
                args.append(ln)
            return "(%s%s)" % (spec["name"], "".join(" " + a for a in args)), spec["ret"]
        raise AssertionError(kind)

    def extra_params_of(self, spec):
        out = [(ln, t) for _k, (ln, t) in spec.get("externs", {}).items()]
        out += list(spec.get("extra_params", []))
        return out

    def param_default(self, spec, pname):
        """(lean, type) of the default value of a parameter of a translated function (bool / None literals)"""
        node = find_function(self.src, spec, self.fn)
        a = node.args
        names = [x.arg for x in a.args]
        defaults = [None] * (len(names) - len(a.defaults)) + list(a.defaults)
        for n_, d in zip(names, defaults):
            if n_ == pname and d is not None and isinstance(d, ast.Constant):
                if isinstance(d.value, bool):
                    return ("true" if d.value else "false"), BOOL
                if d.value is None:
                    return "none", NONE
        return None

    def need(self, spec):
        if spec["name"] not in self.deps and spec["name"] != self.spec["name"]:
            self.deps.append(spec["name"])

    # ---------------------------------------------------------------- hoisting (A-normal form)
    def hoist(self, node, env):
        """-> (binds, node', env'): every effectful call inside `node` is bound to a fresh variable, in
        evaluation order; `node'` mentions those variables instead."""
        binds = []
        env2 = dict(env)

        def eff(n):
            return self.has_effect(n, env2)

        def go(n):
            if isinstance(n, ast.BoolOp):
                vals = [go(n.values[0])]
                for v in n.values[1:]:
                    if self.has_effect(v, env2, readonly_ok=True):
                        self.bad(v, "an effect in a later operand of `and`/`or` (it would be conditional)")
                    # observations of a caught exception (`ex.stderr`, `str(ex)`, `err.errno`) change nothing and
                    # cannot fail: reading them unconditionally is the same as reading them conditionally
                    vals.append(go(v))
                return ast.copy_location(ast.BoolOp(op=n.op, values=vals), n)
            if isinstance(n, ast.IfExp):
                if eff(n.body) or eff(n.orelse):
                    self.bad(n, "an effect inside a branch of a conditional expression")
                return ast.copy_location(ast.IfExp(test=go(n.test), body=n.body, orelse=n.orelse), n)
            if isinstance(n, (ast.ListComp, ast.GeneratorExp, ast.SetComp)):
                gens = n.generators
                if eff(n.elt) or any(eff(i) for g in gens for i in g.ifs) or any(eff(g.iter) for g in gens[1:]):
                    self.bad(n, "an effect inside a comprehension")
                g0 = gens[0]
                it2 = go(g0.iter)
                if isinstance(g0.target, ast.Tuple):
                    xs, t = self.expr(it2, env2)
                    if t[0] == "list" and t[1] is not None and t[1][0] == "list" and len(g0.target.elts) == 2:
                        # `for a, b in xss`: unpack every item first (ValueError at the first that is no pair)
                        name = self.fresh("it")
                        binds.append(Bind(name, "(Eff.ofOption .valueError (unpackAll %s))" % xs, LIST(TUP(t[1][1], t[1][1]))))
                        env2[name] = Var(name, LIST(TUP(t[1][1], t[1][1])))
                        it2 = ast.copy_location(ast.Name(id=name, ctx=ast.Load()), g0.iter)
                ng = ast.comprehension(target=g0.target, iter=it2, ifs=g0.ifs, is_async=g0.is_async)
                return ast.copy_location(type(n)(elt=n.elt, generators=[ng] + gens[1:]), n)
            if isinstance(n, ast.Lambda):
                if eff(n.body):
                    self.bad(n, "an effect inside a lambda")
                return n
            if isinstance(n, ast.Call):
                if self.is_erased(n, env2):
                    for a in list(n.args) + [k.value for k in n.keywords]:
                        if self.has_effect(a, env2, readonly_ok=True):
                            self.bad(n, "an effect inside the arguments of an erased call")
                    return n
                kind = self.effect_kind(n, env2)
                f2 = n.func
                if isinstance(f2, ast.Attribute):
                    f2 = ast.copy_location(ast.Attribute(value=go(f2.value), attr=f2.attr, ctx=f2.ctx), f2)
                args2 = [go(a) for a in n.args]
                kws2 = [ast.keyword(arg=k.arg, value=go(k.value)) for k in n.keywords]
                n2 = ast.copy_location(ast.Call(func=f2, args=args2, keywords=kws2), n)
                if kind is None:
                    return n2
                return bind(n2)
            if isinstance(n, ast.Attribute):
                n2 = ast.copy_location(ast.Attribute(value=go(n.value), attr=n.attr, ctx=n.ctx), n)
                if self.effect_kind(n2, env2) is not None:
                    return bind(n2)
                return n2
            if isinstance(n, ast.Compare):
                return ast.copy_location(ast.Compare(left=go(n.left), ops=n.ops, comparators=[go(c) for c in n.comparators]), n)
            if isinstance(n, ast.BinOp):
                return ast.copy_location(ast.BinOp(left=go(n.left), op=n.op, right=go(n.right)), n)
            if isinstance(n, ast.UnaryOp):
                return ast.copy_location(ast.UnaryOp(op=n.op, operand=go(n.operand)), n)
            if isinstance(n, ast.Subscript):
                return ast.copy_location(ast.Subscript(value=go(n.value), slice=n.slice, ctx=n.ctx), n)
            if isinstance(n, (ast.Tuple, ast.List)):
                return ast.copy_location(type(n)(elts=[go(x) for x in n.elts], ctx=n.ctx), n)
            if eff(n):
                self.bad(n, "an effect inside an expression form %s" % type(n).__name__)
            return n

        def bind(n2):
            term, t = self.mk_effect(n2, env2)
            name = self.fresh("t")
            binds.append(Bind(name, term, t))
            if t[0] not in ("never",):
                env2[name] = Var(name, t)
            else:
                env2[name] = Var(name, UNIT)
            nn = ast.copy_location(ast.Name(id=name, ctx=ast.Load()), n2)
            return nn

        if not self.has_effect(node, env):
            return [], node, env
        if self.is_erased(node, env) and not self.has_effect(node, env, readonly_ok=True):
            return [], node, env
        out = go(node)
        ast.fix_missing_locations(out)
        if not binds:
            return [], node, env
        return binds, out, env2

    # ---------------------------------------------------------------- expressions (additions)
    def expr(self, node, env):
        if isinstance(node, ast.Constant) and isinstance(node.value, str):
            return lean_chars(node.value), STR
        if isinstance(node, ast.Constant) and isinstance(node.value, bytes):
            # bytes are modelled as Str, byte for byte (only ASCII literals occur)
            if any(b >= 128 for b in node.value):
                self.bad(node, "non-ASCII bytes literal")
            return lean_chars(node.value.decode("ascii")), STR
        if isinstance(node, ast.BoolOp) and isinstance(node.op, ast.Or) and len(node.values) == 2:
            # `x or default` as a VALUE on (Optional) strings: x when it is truthy, else the default
            a, ta = self.expr(node.values[0], env)
            if ta in (STR, OPT(STR)):
                b, tb = self.expr(node.values[1], env)
                if tb != STR:
                    self.bad(node, "`x or y` with x a string needs a string y (got %r)" % (tb,))
                if ta == STR:
                    return "(if (!%s.isEmpty) then %s else %s)" % (a, a, b), STR
                v = self.fresh("v")
                return "(match %s with\n  | none => %s\n  | some %s => (if (!%s.isEmpty) then %s else %s))" % (
                    a, b, v, v, v, b), STR
        if isinstance(node, ast.Name) and node.id in env and env[node.id].type == ERASED:
            self.bad(node, "the erased value `%s` is used where a model value is needed" % node.id)
        if isinstance(node, ast.Attribute):
            d = self.dotted(node)
            # enum members: config.TagScope.BRANCH
            parts = d.split(".")
            if len(parts) >= 2 and parts[-2] in TF.ENUMS and (len(parts) == 2 or parts[0] == "config"):
                members = self.enum(parts[-2])
                if parts[-1] not in [m for m, _ in members]:
                    self.bad(node, "enum %s has no member %s" % (parts[-2], parts[-1]))
                return "%s.%s" % (parts[-2], lean_ident(parts[-1])), ENUM(parts[-2])
        if isinstance(node, ast.Subscript):
            # groupdict lookups with a literal group name
            if isinstance(node.slice, ast.Constant) and isinstance(node.slice.value, str):
                val, t = self.expr(node.value, env)
                if t == GROUPDICT:
                    return "(%s %s)" % (val, lean_string(node.slice.value)), OPT(STR)
                self.bad(node, "subscript with a string key on %r" % (t,))
            # `s.split(" ", 1)[0]`
            if (isinstance(node.slice, ast.Constant) and node.slice.value == 0 and isinstance(node.value, ast.Call)
                    and isinstance(node.value.func, ast.Attribute) and node.value.func.attr == "split"
                    and len(node.value.args) == 2 and not node.value.keywords
                    and isinstance(node.value.args[0], ast.Constant) and node.value.args[0].value == " "
                    and isinstance(node.value.args[1], ast.Constant) and node.value.args[1].value == 1):
                recv, t = self.expr(node.value.func.value, env)
                if t == STR:
                    return "(pyBeforeFirstBlank %s)" % recv, STR
        if isinstance(node, ast.ListComp):
            return self.listcomp(node, env)
        if isinstance(node, ast.BinOp) and isinstance(node.op, ast.BitAnd):
            a, ta = self.expr(node.left, env)
            b, tb = self.expr(node.right, env)
            if ta == LIST(STR) and tb == LIST(STR):
                return "(setInter %s %s)" % (a, b), LIST(STR)      # set(...) & set(...)
            self.bad(node, "`&` on %r and %r" % (ta, tb))
        return TF.FuncTranslator.expr(self, node, env)

    def call(self, node, env):
        f = node.func
        fname = self.dotted(f)
        if fname == "VCSAPI" or fname == "vcs.VCSAPI":
            self.record("VcsApi")
            kw = {k.arg: k.value for k in node.keywords}
            if node.args and not kw:
                arg = node.args[0] if len(node.args) == 1 else None
            else:
                arg = kw.get("name") if list(kw) == ["name"] and not node.args else None
            if arg is None:
                self.bad(node, "only `VCSAPI(name=...)` (the standard subcommand table) is modelled")
            v, t = self.expr(arg, env)
            if t != STR:
                self.bad(node, "VCSAPI name of type %r" % (t,))
            return "({ name := %s } : VcsApi)" % v, VCSAPI
        if fname == "set" and len(node.args) == 1 and not node.keywords:
            v, t = self.expr(node.args[0], env)
            if t[0] == "list":
                return v, t           # a set as the list of its elements (only membership / emptiness are observed)
            self.bad(node, "set() of %r" % (t,))
        if isinstance(f, ast.Attribute) and not node.keywords:
            m = f.attr
            if m in ("strip", "splitlines", "groupdict", "split"):
                recv, tr = self.expr(f.value, env)
                if m == "strip" and tr == STR and not node.args:
                    return "(strip %s)" % recv, STR
                if m == "splitlines" and tr == STR and not node.args:
                    return "(pySplitlines %s)" % recv, LIST(STR)
                if m == "groupdict" and tr == MATCH and not node.args:
                    return recv, GROUPDICT
                if (m == "split" and tr == STR and len(node.args) == 2 and isinstance(node.args[0], ast.Constant)
                        and node.args[0].value is None and isinstance(node.args[1], ast.Constant)
                        and node.args[1].value == 1):
                    return "(pySplitWs1 %s)" % recv, LIST(STR)
                self.bad(node, "method `%s` with these arguments on %r" % (m, tr))
        return TF.FuncTranslator.call(self, node, env)

    def bind_target(self, target, elem_t, env, node):
        """a loop / comprehension target over elements of type `elem_t` -> (lambda variable, lets, env')"""
        env2 = dict(env)
        if isinstance(target, ast.Name):
            x = lean_ident(target.id)
            env2[target.id] = Var(x, elem_t)
            return x, "", env2
        if (isinstance(target, ast.Tuple) and elem_t[0] == "tuple" and len(target.elts) == len(elem_t[1])
                and all(isinstance(x, ast.Name) for x in target.elts)):
            p = self.fresh("p")
            lets = ""
            n = len(target.elts)
            for i, (x, t) in enumerate(zip(target.elts, elem_t[1])):
                path = ".2" * i + (".1" if i < n - 1 else "")
                lets += "let %s := %s%s;\n" % (lean_ident(x.id), p, path)
                env2[x.id] = Var(lean_ident(x.id), t)
            return p, lets, env2
        self.bad(node, "unsupported loop target `%s` over elements of type %r" % (self.dotted(target), elem_t))

    def listcomp(self, node, env):
        if len(node.generators) != 1 or node.generators[0].is_async:
            self.bad(node, "only comprehensions with one generator")
        g = node.generators[0]
        xs, t = self.expr(g.iter, env)
        if t[0] != "list" or t[1] is None:
            self.bad(node, "comprehension over a value of type %r" % (t,))
        x, lets, env2 = self.bind_target(g.target, t[1], env, node)
        saved_h, self.hoists = self.hoists, None
        try:
            elt, et = self.expr(node.elt, env2)
            if et == LIT:
                et = INT
            if not g.ifs:
                return "(List.map (fun %s =>\n%s) %s)" % (x, indent(lets + elt, 2), xs), LIST(et)
            test = g.ifs[0] if len(g.ifs) == 1 else ast.copy_location(ast.BoolOp(op=ast.And(), values=list(g.ifs)), node)
            body = self.cond(test, env2, lambda e: "some %s" % self.expr(node.elt, e)[0], lambda e: "none")
        finally:
            self.hoists = saved_h
        return "(List.filterMap (fun %s =>\n%s) %s)" % (x, indent(lets + body, 2), xs), LIST(et)

    # ---------------------------------------------------------------- statements
    def is_noop(self, st, env):
        """statements without a counterpart in the model: logging, assertions, erased bookkeeping"""
        if self.is_dropped(st):
            return True
        if isinstance(st, ast.Assert):
            return True
        if isinstance(st, ast.AnnAssign) and st.value is None:
            return True
        if isinstance(st, ast.Expr):
            return self.is_erased(st.value, env) and not self.has_effect(st.value, env, readonly_ok=True)
        if isinstance(st, ast.Assign) and len(st.targets) == 1:
            tg = st.targets[0]
            if isinstance(tg, ast.Subscript) and self.is_erased(tg.value, env):
                return True
            if isinstance(tg, ast.Name) and (self.is_erased(st.value, env) or self.subcommand_of(st.value, env)) \
                    and not self.has_effect(st.value, env):
                return True
            return False
        if isinstance(st, ast.AnnAssign) and isinstance(st.target, ast.Name) and st.value is not None:
            return self.is_erased(st.value, env) and not self.has_effect(st.value, env)
        if isinstance(st, ast.If):
            return self.noop_block(st.body, env) and self.noop_block(st.orelse, env)
        if isinstance(st, ast.For):
            return not st.orelse and self.noop_block(st.body, self.noop_loop_env(st, env)) \
                and not self.has_effect(st.iter, env)
        if isinstance(st, ast.With):
            return all(self.is_erased(i.context_expr, env) for i in st.items) and self.noop_block(st.body, self.with_env(st, env))
        return False

    def noop_loop_env(self, st, env):
        e = dict(env)
        for n in ast.walk(st.target):
            if isinstance(n, ast.Name):
                e[n.id] = Var(lean_ident(n.id), STR)     # only used to recognise logger calls
        return e

    def with_env(self, st, env):
        e = dict(env)
        for it in st.items:
            if it.optional_vars is not None:
                if not isinstance(it.optional_vars, ast.Name):
                    self.bad(st, "`with ... as <pattern>`")
                e[it.optional_vars.id] = Var(None, ERASED)
        return e

    def noop_block(self, stmts, env):
        e = env
        for s in stmts:
            if not self.is_noop(s, e):
                return False
            e = self.noop_env(s, e)
        return True

    def noop_env(self, st, env):
        """the environment after a no-op statement (erased variables become known)"""
        tgt = None
        val = None
        if isinstance(st, ast.Assign) and len(st.targets) == 1 and isinstance(st.targets[0], ast.Name):
            tgt, val = st.targets[0].id, st.value
        elif isinstance(st, ast.AnnAssign) and isinstance(st.target, ast.Name) and st.value is not None:
            tgt, val = st.target.id, st.value
        if tgt is None:
            return env
        e = dict(env)
        v = Var(None, ERASED)
        sc = self.subcommand_of(val, env)
        if sc is not None:
            v.subcommand = sc
        e[tgt] = v
        return e

    def contains_return(self, stmts):
        for st in stmts:
            for n in ast.walk(st):
                if isinstance(n, (ast.Return, ast.Continue, ast.Break)):
                    return True
        return False

    def always_exits(self, stmts, env):
        """does every path through the block end in return / raise / sys.exit?"""
        live = [s for s in stmts]
        if not live:
            return False
        last = live[-1]
        if isinstance(last, (ast.Return, ast.Raise)):
            return True
        if isinstance(last, ast.Expr) and isinstance(last.value, ast.Call) and self.dotted(last.value.func) == "sys.exit":
            return True
        if isinstance(last, ast.If):
            return self.always_exits(last.body, env) and self.always_exits(last.orelse, env)
        if isinstance(last, ast.Try):
            if last.finalbody and self.always_exits(last.finalbody, env):
                return True
            return self.always_exits(last.body, env) and all(self.always_exits(h.body, env) for h in last.handlers)
        if isinstance(last, ast.With):
            return self.always_exits(last.body, env)
        return False

    def do_return(self, lean_value):
        return self.ret_stack[-1](lean_value)

    def ret(self, node, env, at):
        rt = self.spec["ret"]
        if node is None:
            if rt == UNIT:
                return self.do_return("()")
            if rt[0] == "opt":
                return self.do_return("none")
            self.bad(at, "`return` without a value in a function returning %r" % (rt,))
        binds, node2, env2 = self.hoist(node, env)
        v, t = self.expr(node2, env2)
        if rt == UNIT:
            if t != NONE:
                self.bad(at, "a value is returned from a function declared to return None")
            return wrap_binds(binds, self.do_return("()"))
        return wrap_binds(binds, self.do_return(self.coerce(v, t, rt, at)))

    def block(self, stmts, env, k):
        if not stmts:
            return k(env)
        st, rest = stmts[0], stmts[1:]

        def kr(e):
            return self.block(rest, e, k)
        if self.is_noop(st, env):
            return kr(self.noop_env(st, env))
        if isinstance(st, ast.Return):
            return self.ret(st.value, env, st)
        if isinstance(st, ast.Raise):
            return self.raise_stmt(st, env)
        if isinstance(st, ast.Continue):
            if not self.in_effect_loop and not self.loop_k:
                self.bad(st, "`continue` outside a loop")
            if self.loop_k:
                return self.loop_k[-1](env)
            return "Eff.pure none"
        if isinstance(st, ast.Expr) and self.as_assignment(st, env) is not None:
            return self.assign_stmt(st, self.as_assignment(st, env), env, kr)      # xs.append(e)
        if isinstance(st, ast.Expr):
            binds, node2, env2 = self.hoist(st.value, env)
            if binds and binds[-1].type == ("never",):
                # sys.exit(n): nothing after it runs
                last = binds.pop()
                return wrap_binds(binds, last.term)
            if not binds:
                self.bad(st, "an expression statement without effect (not a logger call)")
            if not (isinstance(node2, ast.Name) and node2.id == binds[-1].var):
                self.bad(st, "the value of an expression statement must be the effectful call itself")
            binds[-1].var = None
            return wrap_binds(binds, kr(env))
        if isinstance(st, ast.With):
            if not all(self.is_erased(i.context_expr, env) for i in st.items):
                self.bad(st, "`with` on a context manager that is not erased")
            return self.block(list(st.body) + list(rest), self.with_env(st, env), k)
        a = self.as_assignment(st, env)
        if a is not None:
            return self.assign_stmt(st, a, env, kr)
        if isinstance(st, ast.If):
            return self.if_stmt(st, rest, env, k)
        if isinstance(st, ast.For):
            return self.for_stmt(st, rest, env, k)
        if isinstance(st, ast.Try):
            return self.try_stmt(st, rest, env, k)
        self.bad(st, "statement form %s is outside the subset" % type(st).__name__)

    def raise_stmt(self, st, env):
        if st.exc is None:
            if not self.handler_exc:
                self.bad(st, "bare `raise` outside an except clause")
            return "Eff.throw %s" % self.handler_exc[-1]
        name = self.dotted(st.exc.func) if isinstance(st.exc, ast.Call) else self.dotted(st.exc)
        if isinstance(st.exc, ast.Name) and st.exc.id in env and env[st.exc.id].type == EXC:
            return "Eff.throw %s" % env[st.exc.id].lean
        if name not in RAISABLE:
            self.bad(st, "`raise %s` is outside the subset" % name)
        return "Eff.throw .%s" % RAISABLE[name]

    def assign_stmt(self, st, a, env, kr):
        name, _compute = a
        value = st.value
        if isinstance(st, ast.AugAssign):
            binds, env2 = [], env
            if self.has_effect(value, env):
                self.bad(st, "an effect in an augmented assignment")
            return self.assign(name, lambda: a[1](env), env, kr, st)
        if isinstance(st, ast.Expr):      # xs.append(e)
            if self.has_effect(st.value, env):
                self.bad(st, "an effect inside `.append(...)`")
            return self.assign(name, lambda: a[1](env), env, kr, st)
        binds, node2, env2 = self.hoist(value, env)
        ln = lean_ident(name)
        if binds and isinstance(node2, ast.Name) and node2.id == binds[-1].var:
            # x = effectful_call(...): bind the result directly to x
            b = binds[-1]
            b.var = ln
            env3 = dict(env2)
            del env3[node2.id]
            env3[name] = Var(ln, b.type)
            return wrap_binds(binds, kr(env3))

        def compute():
            v, t = self.expr(node2, env2)
            return v, t

        def cont(vt):
            v, t = vt
            env3 = dict(env2)
            if t == NONE:
                # `x = None`: no `let` (Lean could not type it); the constant is used where x is
                env3[name] = Var("none", NONE)
                return kr(env3)
            var = Var(ln, t)
            hk = self.hook_kind_of(node2, env2)
            if hk is not None:
                var.hook_kind = hk
            env3[name] = var
            return "let %s := %s;\n%s" % (ln, v, kr(env3))
        return wrap_binds(binds, self.with_hoists(compute, cont))

    # -- if ------------------------------------------------------------------------------------
    def probe_paths(self, run, env):
        """environments at the normal exits of a block (run(pk) translates it with continuation pk)"""
        saved = self.counter
        saved_aux = list(self.aux_defs)
        saved_deps = list(self.deps)
        probes = []

        def pk(e):
            probes.append(e)
            return "?"
        run(pk)
        self.counter = saved
        self.aux_defs = saved_aux
        self.deps = saved_deps
        return probes

    def join_types(self, env, probes, at):
        names = self.changed_vars(env, probes)
        names = [n for n in names if all(n in pe for pe in probes)]
        # erased variables are not carried
        names = [n for n in names if all(pe[n].type != ERASED for pe in probes)]
        jt = {}
        for n in names:
            t = probes[0][n].type
            for pe in probes[1:]:
                t = self.unify(t, pe[n].type) if t is not None else None
            if n in env and t is not None:
                pass
            if t is None or t == NONE:
                self.bad(at, "cannot give the variable `%s` one type on all paths" % n)
            if t == LIT:
                t = INT
            jt[n] = t
        return names, jt

    def block_has_effect(self, stmts, env):
        for s in stmts:
            if self.is_noop(s, env):
                continue
            for n in ast.walk(s):
                if isinstance(n, (ast.Call, ast.Attribute)):
                    try:
                        if self.effect_kind(n, env) is not None:
                            return True
                    except Untranslatable:
                        return True
                if isinstance(n, ast.Raise):
                    return True
                if isinstance(n, ast.Try):
                    return True
            # calls on variables introduced inside the block are classified by name only
            for n in ast.walk(s):
                if isinstance(n, ast.Call) and isinstance(n.func, ast.Attribute) and n.func.attr in METHODS:
                    return True
                if isinstance(n, ast.Attribute) and n.attr in METHODS and METHODS[n.attr].get("prop"):
                    return True
        return False

    def if_stmt(self, st, rest, env, k):
        def kr(e):
            return self.block(rest, e, k)
        binds, test, env = self.hoist(st.test, env)
        body, orelse = list(st.body), list(st.orelse)
        if self.contains_return(body) or self.contains_return(orelse):
            # DUPLICATION form: the rest of the block continues inside both branches
            return wrap_binds(binds, self.cond(test, env, lambda e: self.block(body, e, kr),
                                               lambda e: self.block(orelse, e, kr)))
        effectful = self.block_has_effect(body, env) or self.block_has_effect(orelse, env)
        probes = self.probe_paths(lambda pk: self.cond(test, env, lambda e: self.block(body, e, pk),
                                                       lambda e: self.block(orelse, e, pk)), env)
        if not probes:
            # neither branch reaches its end (sys.exit / raise on every path)
            return wrap_binds(binds, self.cond(test, env, lambda e: self.block(body, e, kr),
                                               lambda e: self.block(orelse, e, kr)))
        names, jt = self.join_types(env, probes, st)

        def tup(e):
            vals = [self.coerce(e[n].lean, e[n].type, jt[n], st) for n in names]
            if not vals:
                return "()"
            return vals[0] if len(vals) == 1 else "(" + ", ".join(vals) + ")"
        env2 = dict(env)
        for n in names:
            env2[n] = Var(lean_ident(n), jt[n])
        pat = "_" if not names else (lean_ident(names[0]) if len(names) == 1 else
                                     "(" + ", ".join(lean_ident(n) for n in names) + ")")
        if not effectful:
            if not names:
                return wrap_binds(binds, kr(env))
            body_t = self.cond(test, env, lambda e: self.block(body, e, tup), lambda e: self.block(orelse, e, tup))
            if len(names) == 1:
                return wrap_binds(binds, "let %s := %s;\n%s" % (pat, body_t, kr(env2)))
            return wrap_binds(binds, "(match %s with\n  | %s => %s)" % (body_t, pat, _arm(kr(env2))))
        # JOIN form in the monad
        body_t = self.cond(test, env, lambda e: self.block(body, e, lambda e2: "Eff.pure %s" % tup(e2)),
                           lambda e: self.block(orelse, e, lambda e2: "Eff.pure %s" % tup(e2)))
        if len(names) <= 1:
            return wrap_binds(binds, "Eff.bind %s (fun %s =>\n%s)" % (body_t, pat, kr(env2)))
        return wrap_binds(binds, "Eff.bind %s (fun p_ => match p_ with\n  | %s => %s)" % (body_t, pat, _arm(kr(env2))))

    # -- try -----------------------------------------------------------------------------------
    def handler_class(self, h):
        if h.type is None:
            return ["baseException"]
        types = h.type.elts if isinstance(h.type, ast.Tuple) else [h.type]
        out = []
        for t in types:
            d = self.dotted(t)
            if d not in EXC_CLASSES:
                self.bad(h, "exception class `%s` is not in the table" % d)
            out.append(EXC_CLASSES[d])
        return out

    def try_stmt(self, st, rest, env, k):
        if st.orelse:
            self.bad(st, "`try ... else` is outside the subset")
        if getattr(st, "handlers", None) is None:
            self.bad(st, "try without handlers")
        body = list(st.body)
        handlers = list(st.handlers)
        fin = list(st.finalbody)
        if fin and self.contains_return(fin):
            self.bad(st, "return/continue inside `finally`")
        # variables assigned in the body must not be read by a handler (it would see a partial state)
        assigned = {n.id for s in body for n in ast.walk(s) if isinstance(n, ast.Name) and isinstance(n.ctx, ast.Store)}
        for h in handlers:
            for n in ast.walk(ast.Module(body=h.body, type_ignores=[])):
                if isinstance(n, ast.Name) and isinstance(n.ctx, ast.Load) and n.id in assigned and n.id not in env:
                    self.bad(h, "the handler reads `%s`, which is assigned inside the try body" % n.id)
        exits = self.always_exits(body, env) and all(self.always_exits(h.body, env) for h in handlers)
        has_ret = self.contains_return(body) or any(self.contains_return(h.body) for h in handlers)

        def handler_env(h, exname, e):
            e2 = dict(e)
            if h.name:
                e2[h.name] = Var(exname, EXC)
            return e2

        def handlers_term(kk, e):
            """fun ex => if ex.isA C1 then H1 else ... else Eff.throw ex"""
            if not handlers:
                return None
            exname = self.fresh("ex")
            chain = "Eff.throw %s" % exname
            for h in reversed(handlers):
                classes = self.handler_class(h)
                self.handler_exc.append(exname)
                try:
                    hb = self.block(list(h.body), handler_env(h, exname, e), kk)
                finally:
                    self.handler_exc.pop()
                test = " || ".join("%s.isA .%s" % (exname, c) for c in classes)
                chain = "if %s then\n%s\nelse %s" % (test, indent(hb, 2), chain)
            return "(fun %s =>\n%s)" % (exname, indent(chain, 2))

        def fin_term(e):
            return self.block(fin, e, lambda e2: "Eff.pure ()")

        def assemble(body_t, h_t, e):
            t = body_t
            if h_t is not None:
                t = "Eff.tryCatch\n%s\n%s" % (indent("(" + t + ")", 2), indent(h_t, 2))
            if fin:
                saved = self.ret_stack
                t = "Eff.tryFinally\n%s\n%s" % (indent("(" + t + ")", 2), indent("(" + fin_term(e) + ")", 2))
                self.ret_stack = saved
            return t

        if exits:
            # every path returns / raises / exits: the construct IS the rest of the function
            def dead(e):
                return "Eff.throw .valueError /- unreachable -/"
            body_t = self.block(body, env, dead)
            return assemble(body_t, handlers_term(dead, env), env)
        if has_ret:
            # some paths return, others fall through.  When what follows is a pure value (typically: the
            # function ends here, i.e. `return None`) the continuation can be inlined into every path.
            tails = self.probe_tail(rest, env, k)
            if not tails:
                self.bad(st, "a try statement in which some paths return and others fall through to further effects")

            def kt(e):
                return self.block(rest, e, k)
            return assemble(self.block(body, env, kt), handlers_term(kt, env), env)
        # no return inside: the construct yields the variables it assigns
        def run(pk):
            self.block(body, env, pk)
            for h in handlers:
                self.handler_exc.append("ex")
                try:
                    self.block(list(h.body), handler_env(h, "ex", env), pk)
                finally:
                    self.handler_exc.pop()
        probes = self.probe_paths(run, env)
        if not probes:
            def dead(e):
                return "Eff.throw .valueError /- unreachable -/"
            return assemble(self.block(body, env, dead), handlers_term(dead, env), env)
        names, jt = self.join_types(env, probes, st)
        names = [n for n in names if not any(h.name == n for h in handlers)]

        def tup(e):
            vals = [self.coerce(e[n].lean, e[n].type, jt[n], st) for n in names]
            if not vals:
                return "()"
            return vals[0] if len(vals) == 1 else "(" + ", ".join(vals) + ")"

        def kk(e):
            return "Eff.pure %s" % tup(e)
        body_t = self.block(body, env, kk)
        term = assemble(body_t, handlers_term(kk, env), env)
        env2 = dict(env)
        for n in names:
            env2[n] = Var(lean_ident(n), jt[n])
        pat = "_" if not names else (lean_ident(names[0]) if len(names) == 1 else "p_")
        inner = self.block(rest, env2, k)
        if len(names) > 1:
            inner = "match p_ with\n  | (%s) => %s" % (", ".join(lean_ident(n) for n in names), _arm(inner))
        return "Eff.bind (%s) (fun %s =>\n%s)" % (term, pat, inner)

    def probe_tail(self, rest, env, k):
        """is the continuation of a statement a pure value (no effect can happen, nothing can be raised)?"""
        saved = self.counter
        saved_aux = list(self.aux_defs)
        saved_deps = list(self.deps)
        try:
            if any(not self.is_noop(s, env) for s in rest):
                return False
            text = k(env)
        finally:
            self.counter = saved
            self.aux_defs = saved_aux
            self.deps = saved_deps
        return text.startswith("Eff.pure ") and "Eff." not in text[len("Eff.pure "):]

    # -- for -----------------------------------------------------------------------------------
    def for_stmt(self, st, rest, env, k):
        if st.orelse:
            self.bad(st, "`for ... else` is outside the subset")
        binds, it, env = self.hoist(st.iter, env)
        body = [s for s in st.body]
        # the iterable
        key = self.dotted(it)
        if key == "VCS_SUBCOMMANDS_BY_NAME":
            xs, et = "vcsNames", STR
        elif key in TF.FIELD_TUPLES:
            xs, et = self.iterable(it, env)
        else:
            xs, t = self.expr(it, env)
            if t[0] != "list" or t[1] is None:
                self.bad(st, "loop over a value of type %r" % (t,))
            et = t[1]
        # `for a, b in items` over lists: unpacking can raise ValueError
        if isinstance(st.target, ast.Tuple) and et[0] == "list" and len(st.target.elts) == 2:
            name = self.fresh("it")
            binds.append(Bind(name, "(Eff.ofOption .valueError (unpackAll %s))" % xs, LIST(TUP(et[1], et[1]))))
            xs, et = name, TUP(et[1], et[1])
        x, lets, env_in = self.bind_target(st.target, et, env, st)
        live = [s for s in body if not self.is_noop(s, env_in)]
        effectful = self.block_has_effect(live, env_in)
        if not effectful:
            return wrap_binds(binds, self.pure_loop(st, xs, x, lets, et, env, env_in, live, rest, k))
        if isinstance(st.target, ast.Tuple):
            self.bad(st, "tuple unpacking in a loop with effects")
        # a loop with effects: a named body of type  α → Eff (Option ρ)
        assigned = {n.id for s in body for n in ast.walk(s) if isinstance(n, ast.Name) and isinstance(n.ctx, ast.Store)}
        carried = [n for n in assigned if n in env and n != st.target.id] if isinstance(st.target, ast.Name) else []
        if carried:
            self.bad(st, "a loop with effects that updates the outer variable(s) %s" % sorted(carried))
        rho = self.lean_type(self.spec["ret"])
        has_ret = any(isinstance(n, ast.Return) for s in body for n in ast.walk(s))
        self.ret_stack.append(lambda v: "Eff.pure (some %s)" % v)
        self.in_effect_loop += 1
        saved_lk = self.loop_k
        self.loop_k = []
        try:
            body_t = self.block(body, env_in, lambda e: "Eff.pure none")
        finally:
            self.loop_k = saved_lk
            self.in_effect_loop -= 1
            self.ret_stack.pop()
        # captured variables: every name of the environment the body mentions
        used = {n.id for s in body for n in ast.walk(s) if isinstance(n, ast.Name)}
        caps = [n for n in env if n in used and env[n].type != ERASED and env[n].lean is not None
                and not (isinstance(st.target, ast.Name) and n == st.target.id)]
        caps.sort(key=lambda n: list(env).index(n))
        aux = "%s.body_%d" % (self.spec["name"], len(self.aux_defs) + 1)
        params = "".join(" (%s : %s)" % (env[n].lean, self.lean_type(env[n].type)) for n in caps)
        generic = " {α : Type}" if any(env[n].type == CONFIG for n in caps) else ""
        self.aux_defs.append("/-- body of the loop `for %s in %s` of `%s` -/\ndef %s%s%s (%s : %s) : Eff (Option %s) :=\n%s\n"
                             % (self.dotted(st.target), self.dotted(st.iter), self.fn, aux, generic, params, x,
                                self.lean_type(et), rho if " " not in rho else "(" + rho + ")", indent(lets + body_t, 2)))
        call = "(%s%s)" % (aux, "".join(" " + env[n].lean for n in caps))
        loop = "(Eff.forIn %s %s)" % (xs, call)
        if has_ret:
            r = self.fresh("r")
            inner = "match %s with\n  | some v => %s\n  | none => %s" % (r, _arm(self.do_return("v")), _arm(self.block(rest, env, k)))
            return wrap_binds(binds, "Eff.bind %s (fun %s =>\n%s)" % (loop, r, inner))
        return wrap_binds(binds, "Eff.bind %s (fun _ =>\n%s)" % (loop, self.block(rest, env, k)))

    def pure_loop(self, st, xs, x, lets, et, env, env_in, live, rest, k):
        if not live:
            return self.block(rest, env, k)
        has_ret = any(isinstance(n, ast.Return) for s in live for n in ast.walk(s))
        if has_ret:
            # a searching loop: the first iteration that returns decides
            if any(isinstance(n, (ast.Continue, ast.Break)) for s in live for n in ast.walk(s)):
                self.bad(st, "continue/break in a searching loop")
            self.ret_stack.append(lambda v: "some %s" % v)
            try:
                body_t = self.block(live, env_in, lambda e: "none")
            finally:
                self.ret_stack.pop()
            found = "(List.findSome? (fun %s =>\n%s) %s)" % (x, indent(lets + body_t, 2), xs)
            return "match %s with\n  | some v => %s\n  | none => %s" % (found, _arm(self.do_return("v")),
                                                                        _arm(self.block(rest, env, k)))
        # an accumulation loop that only appends to one list: result = result ++ xs.flatMap(body)
        assigned = []
        for s in live:
            for n in ast.walk(s):
                if isinstance(n, ast.Name) and isinstance(n.ctx, ast.Store) and n.id in env and n.id not in assigned:
                    assigned.append(n.id)
                if (isinstance(n, ast.Call) and isinstance(n.func, ast.Attribute) and n.func.attr == "append"
                        and isinstance(n.func.value, ast.Name) and n.func.value.id in env
                        and n.func.value.id not in assigned):
                    assigned.append(n.func.value.id)
        target_names = {n.id for n in ast.walk(st.target) if isinstance(n, ast.Name)}
        assigned = [n for n in assigned if n not in target_names]
        if len(assigned) == 1 and env[assigned[0]].type[0] == "list":
            acc = assigned[0]
            only_append = True
            for s in live:
                for n in ast.walk(s):
                    if isinstance(n, ast.Name) and n.id == acc:
                        only_append = only_append and isinstance(n.ctx, ast.Load)
                for n in ast.walk(s):
                    if isinstance(n, ast.Name) and n.id == acc and isinstance(n.ctx, ast.Load):
                        # must be the receiver of .append
                        pass
            loads = sum(1 for s in live for n in ast.walk(s) if isinstance(n, ast.Name) and n.id == acc)
            appends = sum(1 for s in live for n in ast.walk(s)
                          if isinstance(n, ast.Call) and isinstance(n.func, ast.Attribute) and n.func.attr == "append"
                          and isinstance(n.func.value, ast.Name) and n.func.value.id == acc)
            if only_append and loads == appends and appends > 0:
                env_b = dict(env_in)
                env_b[acc] = Var("([] : %s)" % self.lean_type(env[acc].type) if env[acc].type[1] is not None else "[]",
                                 env[acc].type)
                saved_lk = self.loop_k
                self.loop_k = [lambda e: e[acc].lean]
                try:
                    body_t = self.block(live, env_b, lambda e: e[acc].lean)
                    pe = self.probe_paths(lambda pk: self.block(live, env_b, pk), env_b)
                finally:
                    self.loop_k = saved_lk
                t = env[acc].type
                for p in pe:
                    t = self.unify(t, p[acc].type)
                    if t is None:
                        self.bad(st, "cannot type the accumulated list `%s`" % acc)
                env2 = dict(env)
                ln = lean_ident(acc)
                env2[acc] = Var(ln, t)
                return "let %s := (%s ++ List.flatMap (fun %s =>\n%s) %s);\n%s" % (
                    ln, env[acc].lean, x, indent(lets + body_t, 2), xs, self.block(rest, env2, k))
        if isinstance(st.target, ast.Tuple):
            self.bad(st, "tuple unpacking in a general accumulation loop")
        return TF.FuncTranslator.for_stmt(self, st, rest, env, k)

    # ---------------------------------------------------------------- the whole function
    def translate(self):
        spec = self.spec
        node = find_function(self.src, spec, self.fn)
        src, _ = self.src.module(spec["file"])
        self.source_text = ast.get_source_segment(src, node)
        a = node.args
        if a.vararg or a.kwarg or a.kwonlyargs or a.posonlyargs:
            self.bad(node, "only plain positional parameters")
        pynames = [x.arg for x in a.args]
        if pynames != [p for p, _ in spec["params"]]:
            self.bad(node, "parameters are %s, the signature table expects %s" % (pynames, [p for p, _ in spec["params"]]))
        for d in a.defaults:
            if not (isinstance(d, ast.Constant) and (d.value is None or isinstance(d.value, bool))):
                self.bad(node, "only `= None` / bool parameter defaults")
        decos = [self.dotted(d) for d in node.decorator_list]
        if decos != (["property"] if spec.get("prop") else []):
            self.bad(node, "decorators are %s" % decos)
        env = {}
        params = []
        for p, t in spec["params"]:
            if t[0] == "rec":
                self.record(t[1])
            if t[0] == "enum":
                self.enum(t[1])
            env[p] = Var(lean_ident(p), t)
            params.append("(%s : %s)" % (lean_ident(p), self.lean_type(t)))
        for ln, t in self.extra_params_of(spec):
            params.append("(%s : %s)" % (ln, self.lean_type(t)))
        rt = self.lean_type(spec["ret"])
        self.ret_stack = [lambda v: "Eff.pure %s" % v]

        def fall_off(e):
            if spec["ret"] == UNIT:
                return "Eff.pure ()"
            if spec["ret"][0] == "opt":
                return "Eff.pure none"
            self.bad(node, "the function can fall off its end but is declared to return %r" % (spec["ret"],))
        body = self.block(list(node.body), env, fall_off)
        for key, (ln, _) in spec.get("externs", {}).items():
            if ln not in body:
                self.bad(node, "the expression `%s` (abstracted as parameter `%s`) does not occur" % (key, ln))
        head = "def %s %s%s : Eff %s :=" % (spec["name"], "{α : Type} " if spec.get("generic") else "",
                                           " ".join(params), rt if " " not in rt else "(" + rt + ")")
        return head + "\n" + indent(body, 2) + "\n"


def find_function(sources, spec, fn):
    src, tree = sources.module(spec["file"])
    scope = tree.body
    if spec.get("cls"):
        cls = [n for n in tree.body if isinstance(n, ast.ClassDef) and n.name == spec["cls"]]
        if not cls:
            raise Untranslatable(fn, None, "class %s not found in %s" % (spec["cls"], spec["file"]))
        scope = cls[0].body
    hits = [n for n in scope if isinstance(n, ast.FunctionDef) and n.name == spec["func"]]
    if len(hits) != 1:
        raise Untranslatable(fn, None, "function %s found %d times in %s" % (spec["func"], len(hits), spec["file"]))
    return hits[0]


# ----------------------------------------------------------------------------------
# file generation
# ----------------------------------------------------------------------------------
HEADER = "/- GENERATED by harness/translate_effects.py from the Python AST. Do not edit."


def render_types(sources):
    """Gen/F_effTypes.lean: the Config structure and the TagScope enum (generated from their class
    definitions) and the list of VCS names (the keys of VCS_SUBCOMMANDS_BY_NAME, in order)."""
    spec = dict(name="effTypes", file="config.py", func="<types>", params=[], ret=UNIT)
    tr = EffTranslator(spec, sources)
    saved_lean_str = TF.lean_str
    TF.lean_str = lean_chars            # explicit character lists (see lean_chars)
    try:
        enum_decl = tr.decl("enum", "TagScope")
        rec_decl = tr.decl("rec", "Config")
        src, tree = sources.module("vcs.py")
        names = None
        text = ""
        for n in tree.body:
            if (isinstance(n, ast.Assign) and len(n.targets) == 1 and isinstance(n.targets[0], ast.Name)
                    and n.targets[0].id == "VCS_SUBCOMMANDS_BY_NAME" and isinstance(n.value, ast.Dict)):
                names = []
                for kx in n.value.keys:
                    if not (isinstance(kx, ast.Constant) and isinstance(kx.value, str)):
                        raise Untranslatable("VCS_SUBCOMMANDS_BY_NAME", kx, "non-literal key")
                    names.append(kx.value)
                text = ast.unparse(ast.List(elts=list(n.value.keys), ctx=ast.Load()))
        if names is None:
            raise Untranslatable("VCS_SUBCOMMANDS_BY_NAME", None, "dict literal not found in vcs.py")
        csrc, _ = sources.module("config.py")
        _, cnode = sources.find("config.py", ast.ClassDef, "Config")
        _, enode = sources.find("config.py", ast.ClassDef, "TagScope")
        h = sha256(ast.get_source_segment(csrc, cnode) + ast.get_source_segment(csrc, enode) + text)
    except Untranslatable as ex:
        return TYPES_FILE, "\n".join([HEADER, "   UNTRANSLATABLE: %s -/" % str(ex).replace("-/", "- /"), ""]), ex
    except Exception as ex:
        return TYPES_FILE, "\n".join([HEADER, "   UNTRANSLATABLE: %s: %s -/" % (type(ex).__name__, str(ex).replace("-/", "- /")), ""]), ex
    finally:
        TF.lean_str = saved_lean_str
    lines = [HEADER,
             "   source   : src/bumpver/config.py (Config, TagScope), src/bumpver/vcs.py (VCS_SUBCOMMANDS_BY_NAME keys)",
             "   sha256   : %s -/" % h,
             "import BumpverVerif.Model.Eff",
             "set_option linter.unusedVariables false",
             "namespace %s" % GEN_NS, "",
             enum_decl, rec_decl,
             "/-- the keys of `vcs.VCS_SUBCOMMANDS_BY_NAME`, in dictionary order (`get_vcs_api` tries them in turn) -/",
             "def vcsNames : List Str := [%s]" % ", ".join(lean_chars(n) for n in names), "",
             "end %s" % GEN_NS, ""]
    return TYPES_FILE, "\n".join(lines), None


def fix_strings(text):
    return text


def render(spec, sources):
    fname = "F_%s.lean" % spec["name"]
    tr = EffTranslator(spec, sources)
    where = "src/bumpver/%s" % spec["file"]
    pyname = (spec["cls"] + "." if spec.get("cls") else "") + spec["func"]
    try:
        body = tr.translate()
    except Untranslatable as ex:
        text = getattr(tr, "source_text", None)
        lines = [HEADER, "   source   : %s" % where, "   function : %s" % pyname,
                 "   sha256   : %s" % (sha256(text) if text else "(function not found)"), "",
                 "   UNTRANSLATABLE: %s" % str(ex).replace("-/", "- /"),
                 "   (no definition is generated; the ties that use %s.%s cannot compile until this is resolved) -/"
                 % (GEN_NS, spec["name"]), ""]
        return fname, "\n".join(lines), ex
    except Exception as ex:   # unreadable / unparsable source or an internal error: never a silent success
        lines = [HEADER, "   source   : %s" % where, "   function : %s" % pyname, "",
                 "   UNTRANSLATABLE: the source could not be read/parsed/translated: %s: %s -/"
                 % (type(ex).__name__, str(ex).replace("-/", "- /")), ""]
        return fname, "\n".join(lines), ex
    lines = [HEADER, "   source   : %s" % where, "   function : %s" % pyname,
             "   sha256   : %s  (of the function's source text) -/" % sha256(tr.source_text),
             "import %s" % TYPES_MODULE]
    for d in tr.deps:
        lines.append("import BumpverVerif.Gen.F_%s" % d)
    lines += ["set_option linter.unusedVariables false", "namespace %s" % GEN_NS, ""]
    for a in tr.aux_defs:
        lines.append(a)
    lines.append("/-- `%s.%s` -/" % (spec["file"][:-3], pyname))
    lines.append(body)
    lines.append("end %s" % GEN_NS)
    lines.append("")
    return fname, "\n".join(lines), None


def generate(report=None, only=None):
    """{filename: content} for lean/BumpverVerif/Gen/ ; `report` collects (python name, file, error)"""
    sources = TF.Sources()
    out = {}
    fname, content, err = render_types(sources)
    out[fname] = content
    if report is not None:
        report.append(("config.Config/TagScope", fname, err))
    for spec in EFUNCS:
        if only and spec["name"] not in only:
            continue
        fname, content, err = render(spec, sources)
        out[fname] = content
        if report is not None:
            report.append(((spec["cls"] + "." if spec.get("cls") else "") + spec["func"], fname, err))
    return out


def main():
    rep = []
    files = generate(rep)
    gen = os.path.join(os.path.dirname(HERE), "lean", "BumpverVerif", "Gen")
    if "--write" in sys.argv:
        for name, content in files.items():
            path = os.path.join(gen, name)
            old = open(path, encoding="utf-8").read() if os.path.exists(path) else None
            if old != content:
                with open(path, "w", encoding="utf-8") as f:
                    f.write(content)
                print("wrote", name)
    for func, fname, err in rep:
        print("%-28s %-28s %s" % (func, fname, "ok" if err is None else "UNTRANSLATABLE: %s" % err))
    if "--show" in sys.argv:
        for name, content in files.items():
            print("=" * 20, name)
            print(content)
    return 0


if __name__ == "__main__":
    sys.exit(main())
