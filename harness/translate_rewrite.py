#!/venv/bin/python
"""Python -> Lean translator for the file REWRITE path (parse.py, rewrite.py, v2rewrite.py); an
extension of harness/translate_funcs.py, documented in harness/TRANSLATE_REWRITE.md.

`RewriteTranslator` subclasses `translate_funcs.FuncTranslator` and adds what these functions need:

  * EFFECT LEVELS (signature table): 0 = pure, result `T`; 1 = can raise, result `Except RwErr T`;
    2 = reads / writes files and can raise, result `FS → FS × Except RwErr T` (explicit state passing
    over the model's abstract file system, the current file system is the hidden variable `_fs_`).
    `raise Cls(...)` becomes the error value of `Cls` (the message is not modelled), calls that can
    raise are hoisted into `match … with | .error e => … | .ok v => …` in evaluation order;
  * GENERATORS, by two source-to-source steps on the AST before the translation:
      - a generator FUNCTION is translated "run to exhaustion": `_yield = []` is prepended,
        `yield e` becomes `_yield.append(e)`, `return _yield` is appended;
      - `for T in G(args): B` over a generator G that has EFFECTS (level 2) is consumed LAZILY in
        Python: G's body is inlined (locals renamed) with every `yield e` replaced by `T = e; B`.
        `list(G(args))` / `sorted(G(args))` call the run-to-exhaustion definition instead.  A pure
        generator (level 0) is a list either way;
  * loops whose body can raise or touch the file system (`pyForE` / `pyForFS`: stop at the first
    error), tuple targets, `enumerate`, `sorted(xs, key=lambda …)` (stable insertion sort), sets
    (`set()`, `set(xs)`, `.add`, `==`, `-`, `len`) as duplicate free lists, slices, `xs[i]` and
    `xs[i] = e` (IndexError made explicit), `s.split(sep)` (ValueError for an empty separator made
    explicit), `sep.join`, `.rstrip`, `re` objects (`regexp.search`, `m.span()`, `m.group(0)`),
    `dict.items()`, `pathlib.Path`, `with p.open(mode=…, newline='', encoding="utf-8")`,
    starred tuple arguments of NamedTuple constructors, string defaults of parameters, dead
    assignments that only feed `logger.*` / exception messages, `try/except Cls`.

Generated files: lean/BumpverVerif/Gen/F_rewriteTypes.lean (the prelude of trusted primitives plus the
structures generated from the NamedTuple classes) and Gen/F_<name>.lean per function, namespace
BV.GenF.  Nothing is imported from bumpver; only its source text is read ($VERIF_REPO/src/bumpver).
"""
import ast
import copy
import os
import sys

HERE = os.path.dirname(os.path.abspath(__file__))
sys.path.insert(0, HERE)

import translate_funcs as TF                                      # noqa: E402
from translate_funcs import (                                     # noqa: E402
    BOOL, INT, NAT, LIT, STR, NONE, OPT, LIST, TUP, REC,
    Untranslatable, Var, lean_ident, lean_str, indent, _nl, _arm, is_intlike, sha256,
)

# further Lean tokens that Python programs use as names (translate_funcs.lean_ident appends `_`)
TF.LEAN_KEYWORDS.update({"matches", "meta", "partial", "noncomputable", "fun", "termination_by", "decreasing_by"})

# ----------------------------------------------------------------------------------
# additional static types
# ----------------------------------------------------------------------------------
RE = ("re",)          # a compiled regular expression (model: `Re`)
PATH = ("path",)      # pathlib.Path; Lean `Str` (the path text, see TRANSLATE_REWRITE.md)
UNIT = ("unit",)      # a function that only returns None
FSTYPE = ("fs",)      # the abstract file system

FSKEY = "_fs_"        # the hidden variable holding the current file system (level 2)
YIELD = "_yield"      # the hidden accumulator of a generator run to exhaustion


def SET(t):           # t may be None (`set()`)
    return ("set", t)


def DICT(k, v):
    return ("dict", k, v)


def FUNC(args, ret):  # a pure function passed as an extra parameter
    return ("func", tuple(args), ret)


# ----------------------------------------------------------------------------------
# records
# ----------------------------------------------------------------------------------
RECORDS = {
    "LineSpan": TF.RECORDS["LineSpan"],
    "VInfo": dict(TF.RECORDS["VInfo"]),
    "Pattern": dict(lean="Pattern", leanname="Pattern", source=("patterns.py", "Pattern"),
                    generated=True, derive="DecidableEq, Repr"),
    "PatternMatch": dict(lean="PatternMatch", leanname="PatternMatch", source=("parse.py", "PatternMatch"),
                         generated=True, derive="DecidableEq, Repr"),
    "RFD": dict(lean="RewrittenFileData", leanname="RewrittenFileData",
                source=("rewrite.py", "RewrittenFileData"), generated=True, derive="DecidableEq, Repr"),
    # a `re.Match` object (prelude structure; only methods, no attribute access)
    "PyMatch": dict(lean="PyMatch", builtin=True, fields=[]),
}
GENERATED_RECORDS = ["Pattern", "PatternMatch", "RFD"]

# annotation text -> type, for the generated structures
ANNOTATIONS = {
    "str": STR,
    "LineNo": NAT, "Start": NAT, "End": NAT,
    "Pattern": REC("Pattern"),
    "typ.Tuple[Start, End]": TUP(NAT, NAT),
    "typ.Pattern[str]": RE,
    "typ.List[str]": LIST(STR),
}
# the aliases the annotations rely on: (file, name) -> expected right-hand side
ALIASES = {("parse.py", "LineNo"): "int", ("parse.py", "Start"): "int", ("parse.py", "End"): "int"}

# dotted constructor name -> record
CONSTRUCTORS = {
    "LineSpan": "LineSpan", "parse.LineSpan": "LineSpan",
    "PatternMatch": "PatternMatch", "parse.PatternMatch": "PatternMatch",
    "RewrittenFileData": "RFD", "rewrite.RewrittenFileData": "RFD",
}

# exception classes -> the model's error value (the message is not modelled)
EXCEPTIONS = {
    "rewrite.NoPatternMatch": "RwErr.noMatch", "NoPatternMatch": "RwErr.noMatch",
    "IOError": "RwErr.missingFile", "OSError": "RwErr.missingFile",
    "FileNotFoundError": "RwErr.missingFile",
}

# module aliases as the source files import them (`from . import parse` ...)
MODULES = {"parse": "parse.py", "rewrite": "rewrite.py", "v2rewrite": "v2rewrite.py", "v1rewrite": "v1rewrite.py",
           "v2patterns": "v2patterns.py", "v2version": "v2version.py", "v1version": "v1version.py",
           "regexfmt": "regexfmt.py"}

GEN = "BumpverVerif.Gen."
TYPES_MODULE = GEN + "F_rewriteTypes"

# ----------------------------------------------------------------------------------
# callees that are NOT translated here: (file, function) -> what stands for them
# ----------------------------------------------------------------------------------
CALLEES = {
    # translated by translate_funcs.py (tied there)
    ("parse.py", "_has_overlap"): dict(
        lean="hasOverlap", params=[("needle", REC("LineSpan")), ("haystack", LIST(REC("LineSpan")))],
        ret=BOOL, level=0, imports=[GEN + "F_hasOverlap"]),
    ("rewrite.py", "detect_line_sep"): dict(
        lean="detectLineSep", params=[("content", STR)], ret=STR, level=0, imports=[GEN + "F_detectLineSep"]),
    # MODEL functions (tied elsewhere by correspondence)
    ("v2patterns.py", "normalize_pattern"): dict(
        lean="normalizePattern", params=[("version_pattern", STR), ("raw_pattern", STR)], ret=STR, level=0),
    ("v2version.py", "format_version"): dict(
        lean="formatVersion", params=[("vinfo", REC("VInfo")), ("raw_pattern", STR)], ret=STR, level=1,
        err="perr"),
}

# ----------------------------------------------------------------------------------
# the signature table
# ----------------------------------------------------------------------------------
PATTERNS = LIST(REC("Pattern"))
FILE_PATTERNS = DICT(STR, PATTERNS)

FUNCS = [
    dict(name="iterForPattern", file="parse.py", func="_iter_for_pattern", level=0, generator=True,
         params=[("lines", LIST(STR)), ("pattern", REC("Pattern"))], ret=LIST(REC("PatternMatch"))),
    dict(name="iterMatches", file="parse.py", func="iter_matches", level=0, generator=True,
         params=[("lines", LIST(STR)), ("patterns", PATTERNS)], ret=LIST(REC("PatternMatch"))),
    dict(name="rewriteLines", file="v2rewrite.py", func="rewrite_lines", level=1,
         params=[("patterns", PATTERNS), ("new_vinfo", REC("VInfo")), ("old_lines", LIST(STR))],
         ret=LIST(STR)),
    dict(name="rfdFromContent", file="v2rewrite.py", func="rfd_from_content", level=1,
         params=[("patterns", PATTERNS), ("new_vinfo", REC("VInfo")), ("content", STR), ("path", STR)],
         ret=REC("RFD")),
    dict(name="iterPathPatternsItems", file="rewrite.py", func="iter_path_patterns_items", level=2,
         generator=True, params=[("file_patterns", FILE_PATTERNS)], ret=LIST(TUP(PATH, PATTERNS))),
    dict(name="iterRewritten", file="v2rewrite.py", func="iter_rewritten", level=2, generator=True,
         params=[("file_patterns", FILE_PATTERNS), ("new_vinfo", REC("VInfo"))], ret=LIST(REC("RFD"))),
    dict(name="rewriteFiles", file="v2rewrite.py", func="rewrite_files", level=2,
         params=[("file_patterns", FILE_PATTERNS), ("new_vinfo", REC("VInfo"))], ret=UNIT),
    dict(name="patternsWithChange", file="v2rewrite.py", func="_patterns_with_change", level=1,
         params=[("old_vinfo", REC("VInfo")), ("new_vinfo", REC("VInfo")), ("patterns", PATTERNS)], ret=INT),
    dict(name="diff", file="v2rewrite.py", func="diff", level=2,
         params=[("old_vinfo", REC("VInfo")), ("new_vinfo", REC("VInfo")), ("file_patterns", FILE_PATTERNS)],
         ret=STR,
         # `difflib` stays a parameter: rewrite.diff_lines is not translated
         fparams={("rewrite.py", "diff_lines"): ("diff_lines", FUNC([REC("RFD")], LIST(STR)))}),
]
FUNC_BY_KEY = {(s["file"], s["func"]): s for s in FUNCS}


def _is_name(node, name):
    return isinstance(node, ast.Name) and node.id == name


# ----------------------------------------------------------------------------------
# AST preparation: generators
# ----------------------------------------------------------------------------------
def replace_yields(fn, stmts, mk):
    """a copy of `stmts` in which every statement `yield e` is replaced by the statements `mk(e)`;
    any other use of `yield` is outside the subset"""
    out = []
    for st in stmts:
        if isinstance(st, ast.Expr) and isinstance(st.value, ast.Yield):
            if st.value.value is None:
                raise Untranslatable(fn, st, "bare `yield`")
            new = mk(copy.deepcopy(st.value.value))
            for n in new:
                ast.copy_location(n, st)
                ast.fix_missing_locations(n)
            out.extend(new)
            continue
        st = copy.copy(st)
        if isinstance(st, (ast.FunctionDef, ast.Lambda, ast.ClassDef)):
            raise Untranslatable(fn, st, "nested definitions")
        for field in ("body", "orelse", "finalbody"):
            if isinstance(getattr(st, field, None), list) and getattr(st, field) \
                    and isinstance(getattr(st, field)[0], ast.stmt):
                setattr(st, field, replace_yields(fn, getattr(st, field), mk))
        if isinstance(st, ast.Try):
            hs = []
            for h in st.handlers:
                h = copy.copy(h)
                h.body = replace_yields(fn, h.body, mk)
                hs.append(h)
            st.handlers = hs
        out.append(st)
    # a yield left anywhere else (as a value, `yield from`) is refused
    for st in out:
        for n in ast.walk(st):
            if isinstance(n, (ast.Yield, ast.YieldFrom)):
                if not any(n is getattr(s, "value", None) for s in ast.walk(st) if isinstance(s, ast.Expr)):
                    raise Untranslatable(fn, n, "`yield` used as a value / `yield from`")
    return out


def has_yield(node):
    return any(isinstance(n, (ast.Yield, ast.YieldFrom)) for n in ast.walk(node))


def exhaust_generator(fn, fdef):
    """the generator function run to exhaustion, as a list-returning function"""
    for n in ast.walk(fdef):
        if isinstance(n, ast.Return):
            raise Untranslatable(fn, n, "`return` inside a generator")
        if isinstance(n, ast.Name) and n.id == YIELD:
            raise Untranslatable(fn, n, "the name `%s` is reserved" % YIELD)

    def mk(val):
        return [ast.Expr(value=ast.Call(func=ast.Attribute(value=ast.Name(id=YIELD, ctx=ast.Load()), attr="append",
                                                            ctx=ast.Load()), args=[val], keywords=[]))]
    body = replace_yields(fn, fdef.body, mk)
    first = ast.Assign(targets=[ast.Name(id=YIELD, ctx=ast.Store())], value=ast.List(elts=[], ctx=ast.Load()))
    last = ast.Return(value=ast.Name(id=YIELD, ctx=ast.Load()))
    for n in (first, last):
        ast.copy_location(n, fdef)
        ast.fix_missing_locations(n)
    new = copy.copy(fdef)
    new.body = [first] + body + [last]
    return new


class _Renamer(ast.NodeTransformer):
    def __init__(self, names, prefix):
        self.names = names
        self.prefix = prefix

    def visit_Name(self, node):
        if node.id in self.names:
            return ast.copy_location(ast.Name(id=self.prefix + node.id, ctx=node.ctx), node)
        return node


def local_names(fdef):
    names = [a.arg for a in fdef.args.args]
    for n in ast.walk(fdef):
        if isinstance(n, ast.Name) and isinstance(n.ctx, ast.Store) and n.id not in names:
            names.append(n.id)
        if isinstance(n, ast.ExceptHandler) and n.name and n.name not in names:
            names.append(n.name)
    return names


# ----------------------------------------------------------------------------------
# the translator of one function
# ----------------------------------------------------------------------------------
class RewriteTranslator(TF.FuncTranslator):
    def __init__(self, spec, sources):
        TF.FuncTranslator.__init__(self, spec, sources)
        self.level = spec.get("level", 0)
        self.file = spec["file"]
        self.imports = [TYPES_MODULE]
        self.henv = {}
        self.mutated = set()
        self.inline_depth = 0
        self.handlers = []            # enclosing `try` handlers (innermost last)
        self.dead = set()

    # -- type environment -------------------------------------------------------------
    def record(self, name):
        if name in self.records:
            return self.records[name]
        d = RECORDS[name]
        if d.get("builtin"):
            self.records[name] = dict(d)
            return self.records[name]
        if not d.get("generated"):
            # a record of translate_funcs (field table checked against the class there)
            saved = TF.RECORDS.get(name)
            r = TF.FuncTranslator.record(self, name)
            assert saved is not None
            return r
        fname, cls = d["source"]
        pyfields = self.src.class_fields(fname, cls, self.fn)
        fields = []
        for f, ann in pyfields:
            if ann not in ANNOTATIONS:
                self.bad(None, "field %s.%s: annotation `%s` has no type mapping" % (cls, f, ann))
            fields.append((f, lean_ident(f), ANNOTATIONS[ann]))
        r = dict(d)
        r["fields"] = fields
        r["pyorder"] = [f for f, _ in pyfields]
        self.records[name] = r
        return r

    def lean_type(self, t):
        k = t[0]
        if k == "rec":
            return RECORDS[t[1]]["lean"]
        if k == "re":
            return "Re"
        if k == "path":
            return "Str"
        if k == "unit":
            return "Unit"
        if k == "fs":
            return "FS"
        if k == "set":
            if t[1] is None:
                return "List _"
            return "List " + self.paren_type(t[1])
        if k == "dict":
            return "List (%s × %s)" % (self.lean_type(t[1]), self.lean_type(t[2]))
        if k == "func":
            return " → ".join([self.paren_type(a) for a in t[1]] + [self.paren_type(t[2])])
        if k == "opt":
            return "Option " + self.paren_type(t[1])
        if k == "list":
            if t[1] is None:
                return "List _"
            return "List " + self.paren_type(t[1])
        if k == "tuple":
            return "(" + " × ".join(self.lean_type(x) for x in t[1]) + ")"
        return TF.FuncTranslator.lean_type(self, t)

    def unify(self, a, b):
        if a == b:
            return a
        if a[0] == "set" and b[0] == "set":
            if a[1] is None:
                return b
            if b[1] is None:
                return a
            u = self.unify(a[1], b[1])
            return SET(u) if u else None
        return TF.FuncTranslator.unify(self, a, b)

    def coerce(self, lean, frm, to, node=None):
        if frm == to:
            return lean
        if to[0] == "set" and frm[0] == "set" and (frm[1] is None or frm[1] == to[1]):
            return lean
        return TF.FuncTranslator.coerce(self, lean, frm, to, node)

    # -- results and errors ------------------------------------------------------------------
    def fs_of(self, env):
        return env[FSKEY].lean

    def wrap_ok(self, v, env):
        if self.level == 0:
            return v
        if self.level == 1:
            return "(Except.ok %s)" % v
        return "(%s, Except.ok %s)" % (self.fs_of(env), v)

    def wrap_err(self, e, env):
        """the result of the function when the error value `e` is raised here"""
        if self.handlers:
            return self.handlers[-1](e, env)
        return self.wrap_err_plain(e, env)

    def wrap_err_plain(self, e, env):
        if self.level == 0:
            self.bad(None, "an operation that can raise in a function declared pure (level 0)")
        if self.level == 1:
            return "(Except.error %s)" % e
        return "(%s, Except.error %s)" % (self.fs_of(env), e)

    def hoist(self, node, lean_expr, kind, base="v"):
        """evaluate the raising expression `lean_expr` before the statement; returns the bound name"""
        if self.hoists is None:
            self.bad(node, "an operation that can raise is only supported inside an assignment, "
                           "a return value or an expression statement")
        v = self.fresh(base)
        self.hoists.append((v, lean_expr, kind))
        return v

    def with_hoists(self, compute, cont):
        env = self.henv
        saved = self.hoists
        self.hoists = []
        try:
            val = compute()
            hs = self.hoists
        finally:
            self.hoists = saved
        body = cont(val)
        for name, e, kind in reversed(hs):
            ex = self.fresh("ex")
            err = ex if kind == "except" else "(RwErr.crash %s)" % ex
            body = "(match %s with\n  | Except.error %s => %s\n  | Except.ok %s => %s)" % (
                e, ex, _arm(self.wrap_err(err, env)), name, _arm(body))
        return body

    def ret(self, node, env, at):
        rt = self.spec["ret"]
        self.henv = env

        def compute():
            if node is None:
                return ("()", UNIT) if rt == UNIT else ("none", NONE)
            return self.expr(node, env)

        def cont(vt):
            v, t = vt
            return self.wrap_ok(self.coerce(v, t, rt, at), env)
        return self.with_hoists(compute, cont)

    def assign(self, name, compute, env, kr, at):
        self.henv = env
        return TF.FuncTranslator.assign(self, name, compute, env, kr, at)

    # -- callees -------------------------------------------------------------------------------
    def resolve(self, func):
        """(file, function name) of a called name, or None"""
        if isinstance(func, ast.Name):
            return (self.file, func.id)
        if isinstance(func, ast.Attribute) and isinstance(func.value, ast.Name) and func.value.id in MODULES:
            return (MODULES[func.value.id], func.attr)
        return None

    def callee(self, func):
        key = self.resolve(func)
        if key is None:
            return None
        fp = self.spec.get("fparams", {})
        if key in fp:
            ln, t = fp[key]
            return dict(lean=ln, params=[("arg%d" % i, a) for i, a in enumerate(t[1])], ret=t[2], level=0,
                        fparam=True)
        if key in FUNC_BY_KEY:
            s = FUNC_BY_KEY[key]
            return dict(lean=s["name"], params=s["params"], ret=s["ret"], level=s["level"],
                        generator=s.get("generator", False), imports=[GEN + "F_" + s["name"]], key=key)
        if key in CALLEES:
            d = dict(CALLEES[key])
            d["key"] = key
            return d
        return None

    def callee_defaults(self, key):
        """{parameter: default expression} read from the callee's definition"""
        if key is None:
            return {}
        _, node = self.src.find(key[0], ast.FunctionDef, key[1])
        if node is None:
            return {}
        args = node.args.args
        ds = node.args.defaults
        return {a.arg: d for a, d in zip(args[len(args) - len(ds):], ds)}

    def bind_args(self, node, cal):
        """the argument expressions of the call `node` in the callee's parameter order"""
        if any(isinstance(a, ast.Starred) for a in node.args):
            self.bad(node, "starred arguments in a call of `%s`" % ast.unparse(node.func))
        names = [p for p, _ in cal["params"]]
        if len(node.args) > len(names):
            self.bad(node, "too many arguments")
        vals = dict(zip(names, node.args))
        for kw in node.keywords:
            if kw.arg is None or kw.arg not in names or kw.arg in vals or cal.get("fparam"):
                self.bad(node, "bad keyword argument `%s`" % kw.arg)
            vals[kw.arg] = kw.value
        dflt = self.callee_defaults(cal.get("key"))
        out = []
        for p in names:
            if p in vals:
                out.append(vals[p])
            elif p in dflt:
                out.append(dflt[p])
            else:
                self.bad(node, "missing argument `%s`" % p)
        return out

    def call_args(self, node, cal, env):
        parts = []
        for a, (p, pt) in zip(self.bind_args(node, cal), cal["params"]):
            v, t = self.expr(a, env)
            parts.append(self.coerce_arg(v, t, pt, a))
        for m in cal.get("imports", []):
            if m not in self.imports:
                self.imports.append(m)
        return parts

    def coerce_arg(self, v, t, pt, node):
        return self.coerce(v, t, pt, node)

    def call_callee(self, node, env, cal):
        if cal["level"] == 2:
            self.bad(node, "a call that touches the file system is only supported as `x = f(...)`, "
                           "`x = list(g(...))`, `f(...)` or as the iterable of a `for`")
        parts = self.call_args(node, cal, env)
        app = "(%s %s)" % (cal["lean"], " ".join(parts)) if parts else cal["lean"]
        if cal["level"] == 0:
            return app, cal["ret"]
        v = self.hoist(node, app, cal.get("err", "except"))
        return v, cal["ret"]

    # -- expressions -----------------------------------------------------------------------------
    def lt_term(self, t, a, b, node):
        """Lean Bool: `a < b` for Python values of static type t (ints, str, tuples: lexicographic)"""
        if is_intlike(t):
            return "(decide (%s < %s))" % (a, b)
        if t == STR or t == PATH:
            return "(strLt %s %s)" % (a, b)
        if t[0] == "tuple":
            n = len(t[1])
            projs = [".2" * i + (".1" if i < n - 1 else "") for i in range(n)]
            out = None
            for p, ct in reversed(list(zip(projs, t[1]))):
                lt = self.lt_term(ct, a + p, b + p, node)
                if out is None:
                    out = lt
                else:
                    out = "(%s || (%s == %s && %s))" % (lt, a + p, b + p, out)
            return out
        self.bad(node, "no ordering for sort keys of type %r" % (t,))

    def sorted_call(self, node, env):
        if len(node.args) != 1:
            self.bad(node, "sorted() takes one positional argument")
        kws = {k.arg: k.value for k in node.keywords}
        if set(kws) - {"key"}:
            self.bad(node, "sorted() supports only `key=`")
        xs, txs = self.iter_value(node.args[0], env)
        et = txs[1]
        if "key" in kws:
            lam = kws["key"]
            if not (isinstance(lam, ast.Lambda) and len(lam.args.args) == 1 and not lam.args.defaults
                    and not lam.args.vararg and not lam.args.kwarg and not lam.args.kwonlyargs):
                self.bad(node, "`key=` must be a one-parameter lambda")
            x = lean_ident(lam.args.args[0].arg)
            env2 = dict(env)
            env2[lam.args.args[0].arg] = Var(x, et)
            saved, self.hoists = self.hoists, None
            try:
                kb, kt = self.expr(lam.body, env2)
            finally:
                self.hoists = saved
            if kt == LIT:
                kt = INT
            key = "(fun (%s : %s) => %s)" % (x, self.lean_type(et), kb)
        else:
            # sorted() of tuples whose FIRST component decides (distinct first components: dict keys)
            if et[0] == "tuple":
                kt = et[1][0]
                key = "(fun (x : %s) => x.1)" % self.lean_type(et)
            else:
                kt = et
                key = "(fun (x : %s) => x)" % self.lean_type(et)
        lt = "(fun (a b : %s) => %s)" % (self.lean_type(kt), self.lt_term(kt, "a", "b", node))
        return "(pySortedBy %s %s %s)" % (key, lt, xs), LIST(et)

    def iter_value(self, node, env):
        """a list-valued iterable: a list, a set, `d.items()`, a pure generator call, `enumerate`, `sorted`"""
        v, t = self.expr(node, env)
        if t[0] == "set" and t[1] is not None:
            return v, LIST(t[1])
        if t[0] != "list" or t[1] is None:
            self.bad(node, "iteration over a value of type %r" % (t,))
        return v, t

    def expr(self, node, env):
        if isinstance(node, ast.Subscript):
            return self.subscript(node, env)
        if isinstance(node, ast.BinOp) and isinstance(node.op, ast.Sub):
            a, ta = self.expr(node.left, env)
            if ta[0] == "set":
                b, tb = self.expr(node.right, env)
                u = self.unify(ta, tb)
                if u is None or u[1] is None:
                    self.bad(node, "difference of sets of different types")
                return "(pySetDiff %s %s)" % (a, b), u
        if isinstance(node, ast.Attribute):
            key = ast.unparse(node)
            if key in TF.FIELD_TUPLES:
                self.bad(node, "`_fields`")
            val, t = self.expr(node.value, env)
            if t[0] == "rec":
                r = self.record(t[1])
                for f, path, ft in r["fields"]:
                    if f == node.attr:
                        return "%s.%s" % (val, path), ft
                self.bad(node, "record %s has no (modelled) field `%s`" % (t[1], node.attr))
            self.bad(node, "attribute `%s` of a value of type %r" % (node.attr, t))
        if isinstance(node, ast.JoinedStr):
            self.bad(node, "f-strings are only supported where the value is not used (logging, exception messages)")
        return TF.FuncTranslator.expr(self, node, env)

    def nat_bound(self, node, env):
        v, t = self.expr(node, env)
        if t not in (NAT, LIT):
            self.bad(node, "slice bounds / indexes must be known to be non-negative (Nat), got %r" % (t,))
        return v

    def subscript(self, node, env):
        sl = node.slice
        if isinstance(sl, ast.Slice):
            if sl.step is not None:
                self.bad(node, "slices with a step")
            val, t = self.expr(node.value, env)
            if not (t == STR or t[0] == "list"):
                self.bad(node, "slice of a value of type %r" % (t,))
            lo = self.nat_bound(sl.lower, env) if sl.lower is not None else None
            hi = self.nat_bound(sl.upper, env) if sl.upper is not None else None
            if lo is None and hi is None:
                return val, t                                    # xs[:]  (a copy: values are immutable here)
            if lo is None:
                return "(List.take %s %s)" % (hi, val), t
            if hi is None:
                return "(List.drop %s %s)" % (lo, val), t
            return "(List.take (%s - %s) (List.drop %s %s))" % (hi, lo, lo, val), t
        val, t = self.expr(node.value, env)
        if t[0] == "list":
            if t[1] is None:
                self.bad(node, "index into an empty list")
            i = self.nat_bound(sl, env)
            v = self.hoist(node, "(pyGetItem %s %s)" % (val, i), "except", "item")
            return v, t[1]
        if t[0] == "tuple" and isinstance(sl, ast.Constant) and isinstance(sl.value, int):
            i, n = sl.value, len(t[1])
            if i < 0:
                i += n
            if not 0 <= i < n:
                self.bad(node, "tuple index out of range")
            path = ".2" * i + (".1" if i < n - 1 else "")
            return "%s%s" % (val, path), t[1][i]
        self.bad(node, "subscript of a value of type %r" % (t,))

    def compare1(self, op, ln, rn, env, node):
        if isinstance(op, (ast.Eq, ast.NotEq)):
            saved = self.counter
            _, ta = self.expr(ln, env) if self.hoists is None else self._typed(ln, env)
            self.counter = saved
            if ta[0] == "set":
                a, ta = self.expr(ln, env)
                b, tb = self.expr(rn, env)
                u = self.unify(ta, tb)
                if u is None:
                    self.bad(node, "`==` on sets of different types")
                return "(%spySetEq %s %s)" % ("!" if isinstance(op, ast.NotEq) else "", a, b)
            if ta[0] in ("re", "func", "fs", "dict"):
                self.bad(node, "`==` on values of type %r" % (ta,))
        return TF.FuncTranslator.compare1(self, op, ln, rn, env, node)

    def _typed(self, node, env):
        """the static type of an expression without keeping its hoists"""
        saved = self.hoists
        self.hoists = []
        try:
            return self.expr(node, env)
        finally:
            self.hoists = saved

    def constructor(self, node, env, recname):
        r = self.record(recname)
        fields = r["fields"]
        if recname == "LineSpan":
            lean = RECORDS["LineSpan"]["lean"]
        else:
            lean = r["lean"]
        # positional arguments; `*t` for a tuple t of known length is expanded
        pos = []
        for a in node.args:
            if isinstance(a, ast.Starred):
                v, t = self.expr(a.value, env)
                if t[0] != "tuple":
                    self.bad(a, "`*x` needs a tuple of known length")
                n = len(t[1])
                for i in range(n):
                    pos.append(("%s%s" % (v, ".2" * i + (".1" if i < n - 1 else "")), t[1][i], a))
            else:
                v, t = self.expr(a, env)
                pos.append((v, t, a))
        if len(pos) + len(node.keywords) != len(fields):
            self.bad(node, "constructor needs all %d fields" % len(fields))
        vals = {}
        for (f_, path, ft), p in zip(fields, pos):
            vals[f_] = p
        for kw in node.keywords:
            if kw.arg is None or kw.arg in vals or kw.arg not in [x for x, _, _ in fields]:
                self.bad(node, "bad keyword `%s`" % kw.arg)
            v, t = self.expr(kw.value, env)
            vals[kw.arg] = (v, t, kw.value)
        items = []
        for f_, path, ft in fields:
            v, t, at = vals[f_]
            items.append("%s := %s" % (path, self.coerce(v, t, ft, at)))
        return "({ " + ", ".join(items) + " } : %s)" % lean, REC(recname)

    def call(self, node, env):
        f = node.func
        fname = ast.unparse(f)
        if fname in CONSTRUCTORS:
            return self.constructor(node, env, CONSTRUCTORS[fname])
        cal = self.callee(f)
        if cal is not None:
            return self.call_callee(node, env, cal)
        if fname == "enumerate" and len(node.args) == 1 and not node.keywords:
            xs, t = self.iter_value(node.args[0], env)
            return "(pyEnumerate %s)" % xs, LIST(TUP(NAT, t[1]))
        if fname == "sorted":
            return self.sorted_call(node, env)
        if fname == "set" and not node.keywords:
            if not node.args:
                return "pySetEmpty", SET(None)
            if len(node.args) == 1:
                xs, t = self.iter_value(node.args[0], env)
                return "(pySetOfList %s)" % xs, SET(t[1])
        if fname == "list" and len(node.args) == 1 and not node.keywords:
            xs, t = self.iter_value(node.args[0], env)
            return xs, t
        if fname == "len" and len(node.args) == 1 and not node.keywords:
            a, ta = self.expr(node.args[0], env)
            if ta[0] == "set":
                return "%s.length" % a, NAT                      # sets are kept duplicate free
        if fname == "str" and len(node.args) == 1 and not node.keywords:
            a, ta = self.expr(node.args[0], env)
            if ta == PATH or ta == STR:
                return a, STR                                    # str(Path(s)) = s for normalised paths
            self.bad(node, "str() of a value of type %r" % (ta,))
        if fname in ("pl.Path", "pathlib.Path") and len(node.args) == 1 and not node.keywords:
            a, ta = self.expr(node.args[0], env)
            if ta != STR:
                self.bad(node, "Path() of a value of type %r" % (ta,))
            return a, PATH
        if isinstance(f, ast.Attribute):
            m = f.attr
            if m == "_replace":
                recv, tr = self.expr(f.value, env)
                if tr[0] == "rec" and not node.args:
                    r = self.record(tr[1])
                    items = []
                    for kw in node.keywords:
                        hit = [x for x in r["fields"] if x[0] == kw.arg]
                        if not hit:
                            self.bad(node, "_replace of unknown field `%s`" % kw.arg)
                        v, vt = self.expr(kw.value, env)
                        items.append("%s := %s" % (hit[0][1], self.coerce(v, vt, hit[0][2], kw.value)))
                    return "{ %s with %s }" % (recv, ", ".join(items)), tr
            if m in ("search", "span", "group", "start", "end", "split", "join", "rstrip", "exists", "items"):
                if node.keywords:
                    self.bad(node, "keyword arguments")
                recv, tr = self.expr(f.value, env)
                args = [self.expr(a, env) for a in node.args]
                if m == "search" and tr == RE and len(args) == 1 and args[0][1] == STR:
                    return "(pySearch %s %s)" % (recv, args[0][0]), OPT(REC("PyMatch"))
                if tr == REC("PyMatch"):
                    if m == "span" and not args:
                        return "%s.span" % recv, TUP(NAT, NAT)
                    if m == "start" and not args:
                        return "%s.start" % recv, NAT
                    if m == "end" and not args:
                        return "%s.stop" % recv, NAT
                    if m == "group" and len(args) == 1 and isinstance(node.args[0], ast.Constant) \
                            and node.args[0].value == 0 and node.args[0].value is not False:
                        return "%s.group0" % recv, STR
                    if m == "group" and not args:
                        return "%s.group0" % recv, STR
                if m == "split" and tr == STR and len(args) == 1 and args[0][1] == STR:
                    v = self.hoist(node, "(pySplit %s %s)" % (recv, args[0][0]), "except", "parts")
                    return v, LIST(STR)
                if m == "join" and tr == STR and len(args) == 1 and args[0][1] in (LIST(STR), LIST(None)):
                    return "(join %s %s)" % (recv, args[0][0]), STR
                if m == "rstrip" and tr == STR and len(args) == 1 and args[0][1] == STR:
                    return "(rstripChars %s %s)" % (args[0][0], recv), STR
                if m == "exists" and tr == PATH and not args:
                    if FSKEY not in env:
                        self.bad(node, "file system access in a function of level < 2")
                    return "(pyExists %s %s)" % (self.fs_of(env), recv), BOOL
                if m == "items" and tr[0] == "dict" and not args:
                    return recv, LIST(TUP(tr[1], tr[2]))
                self.bad(node, "method `%s` on a value of type %r with %d argument(s)" % (m, tr, len(args)))
        return TF.FuncTranslator.call(self, node, env)

    def truthy_of(self, lean, t, node):
        if t[0] == "set":
            return "(!%s.isEmpty)" % lean
        if t == PATH or t == RE or t[0] in ("func", "dict", "fs"):
            self.bad(node, "truthiness of a value of type %r" % (t,))
        return TF.FuncTranslator.truthy_of(self, lean, t, node)

    # -- statements ---------------------------------------------------------------------------
    def may_raise(self, node):
        """syntactic, conservative: does the statement contain an operation that can raise?"""
        for n in ast.walk(node):
            if isinstance(n, (ast.Raise, ast.With, ast.Try)):
                return True
            if isinstance(n, ast.Subscript) and not isinstance(n.slice, ast.Slice):
                if not (isinstance(n.slice, ast.Constant) and isinstance(n.ctx, ast.Load)
                        and not isinstance(n.value, ast.Name)):
                    return True
            if isinstance(n, ast.Call):
                cal = self.callee(n.func)
                if cal is not None and cal["level"] >= 1:
                    return True
                if isinstance(n.func, ast.Attribute) and n.func.attr in ("split", "exists", "open", "read", "write"):
                    return True
        return False

    def contains_exit(self, stmts, allow_continue=False):
        if TF.FuncTranslator.contains_exit(self, stmts, allow_continue):
            return True
        return any(self.may_raise(st) for st in stmts)

    def uses_of(self, name, stmts):
        """loads of `name` that matter for the result: not inside logger calls, exception messages
        or dead assignments"""
        count = 0

        def walk(n):
            nonlocal count
            if isinstance(n, ast.Expr) and self.is_dropped(n):
                return
            if isinstance(n, ast.Raise):
                return
            if id(n) in self.dead:
                return
            if isinstance(n, ast.Name) and n.id == name and isinstance(n.ctx, ast.Load):
                count += 1
            for c in ast.iter_child_nodes(n):
                walk(c)
        for st in stmts:
            walk(st)
        return count

    def compute_dead(self):
        """assignments `x = e` with a harmless `e` whose target only feeds logging / exception messages /
        other dead assignments (least fixpoint, recomputed when code is inlined)"""
        self.dead = set()
        cands = [n for st in self.fbody for n in ast.walk(st)
                 if isinstance(n, ast.Assign) and len(n.targets) == 1 and isinstance(n.targets[0], ast.Name)
                 and self.harmless(n.value)]
        changed = True
        while changed:
            changed = False
            for n in cands:
                if id(n) in self.dead:
                    continue
                name = n.targets[0].id
                # every assignment of the name must be a candidate, and no live use may exist
                def stores(m):
                    tg = m.targets if isinstance(m, ast.Assign) else [m.target]
                    return any(isinstance(x, ast.Name) and x.id == name for t in tg for x in ast.walk(t))
                others = [m for st in self.fbody for m in ast.walk(st)
                          if isinstance(m, (ast.Assign, ast.AugAssign, ast.AnnAssign, ast.For))
                          and stores(m) and m not in cands]
                if others:
                    continue
                if self.uses_of(name, self.fbody) == 0:
                    for m in cands:
                        if m.targets[0].id == name:
                            self.dead.add(id(m))
                    changed = True

    def harmless(self, node):
        """an expression built only from constants, names, attributes, `+`, f-strings, `" ".join(x.args)`
        and calls of the diagnostic module `regexfmt` (trusted total, result only logged)"""
        if isinstance(node, (ast.Constant, ast.Name)):
            return True
        if isinstance(node, ast.Attribute):
            return self.harmless(node.value)
        if isinstance(node, ast.BinOp) and isinstance(node.op, ast.Add):
            return self.harmless(node.left) and self.harmless(node.right)
        if isinstance(node, ast.JoinedStr):
            return all(self.harmless(v) for v in node.values)
        if isinstance(node, ast.FormattedValue):
            return self.harmless(node.value) and node.format_spec is None
        if isinstance(node, ast.Call):
            f = node.func
            if isinstance(f, ast.Attribute) and isinstance(f.value, ast.Name) and f.value.id == "regexfmt":
                return all(self.harmless(a) for a in node.args) and not node.keywords
            if isinstance(f, ast.Attribute) and f.attr == "join" and isinstance(f.value, ast.Constant) \
                    and len(node.args) == 1 and isinstance(node.args[0], ast.Attribute) and node.args[0].attr == "args":
                return True
        return False

    def is_dead_assignment(self, st):
        return id(st) in self.dead

    def check_mutation(self, st, name):
        if name not in self.mutable_ok:
            self.bad(st, "mutation of `%s`, which may alias another value (it is a parameter, is assigned from "
                         "a non-copying expression, or a reference to it is stored)" % name)

    def analyse_aliasing(self, fdef):
        """names that may be mutated in place: every assignment is a fresh value (literal, copy `xs[:]`,
        `set()`, `sorted`, `list`, a call) and no reference to them is stored anywhere"""
        params = {a.arg for a in fdef.args.args}
        fresh, tainted, captured = set(), set(params), set()

        def is_fresh(v):
            if isinstance(v, (ast.List, ast.ListComp, ast.Set, ast.Dict)):
                return True
            if isinstance(v, ast.Subscript) and isinstance(v.slice, ast.Slice):
                return True
            if isinstance(v, ast.Call):
                return True
            return False
        for n in ast.walk(fdef):
            if isinstance(n, (ast.Assign, ast.AnnAssign)) and getattr(n, "value", None) is not None:
                targets = n.targets if isinstance(n, ast.Assign) else [n.target]
                for t in targets:
                    if isinstance(t, ast.Name):
                        (fresh if is_fresh(n.value) else tainted).add(t.id)
                    elif isinstance(t, (ast.Tuple, ast.List)):
                        for e in ast.walk(t):
                            if isinstance(e, ast.Name):
                                tainted.add(e.id)
                if isinstance(n.value, ast.Name):
                    captured.add(n.value.id)
            if isinstance(n, ast.For):
                for e in ast.walk(n.target):
                    if isinstance(e, ast.Name):
                        tainted.add(e.id)
            # a reference stored into a tuple / list / constructor / appended / yielded
            if isinstance(n, (ast.Tuple, ast.List)) and isinstance(getattr(n, "ctx", None), ast.Load):
                for e in n.elts:
                    if isinstance(e, ast.Name):
                        captured.add(e.id)
            if isinstance(n, ast.Call):
                fname = ast.unparse(n.func)
                stores = fname in CONSTRUCTORS or (isinstance(n.func, ast.Attribute)
                                                   and n.func.attr in ("append", "add", "_replace"))
                if stores:
                    for e in list(n.args) + [k.value for k in n.keywords]:
                        if isinstance(e, ast.Name):
                            captured.add(e.id)
            if isinstance(n, (ast.Yield,)) and isinstance(n.value, ast.Name):
                captured.add(n.value.id)
        return (fresh - tainted) - captured

    def block(self, stmts, env, k):
        if not stmts:
            return k(env)
        st, rest = stmts[0], stmts[1:]

        def kr(e):
            return self.block(rest, e, k)
        if isinstance(st, ast.AnnAssign) and st.value is None:
            return kr(env)                                       # a bare declaration `fobj: typ.IO[str]`
        if self.is_dead_assignment(st):
            return kr(env)
        if isinstance(st, ast.Raise):
            return self.raise_stmt(st, env)
        if isinstance(st, ast.With):
            return self.with_stmt(st, rest, env, k)
        if isinstance(st, ast.Try):
            return self.try_stmt(st, rest, env, k)
        if isinstance(st, ast.Assign) and len(st.targets) == 1:
            tgt = st.targets[0]
            if isinstance(tgt, (ast.Tuple, ast.List)):
                return self.unpack(tgt, st.value, env, kr, st)
            if isinstance(tgt, ast.Subscript):
                return self.setitem(st, tgt, env, kr)
            cal = self.effect_call(st.value)
            if cal is not None and isinstance(tgt, ast.Name):
                return self.fs_call(st, cal[0], cal[1], tgt.id, env, kr)
        if isinstance(st, ast.Expr) and isinstance(st.value, ast.Call) and not self.is_dropped(st):
            c = st.value
            cal = self.effect_call(c)
            if cal is not None:
                return self.fs_call(st, cal[0], cal[1], None, env, kr)
            if isinstance(c.func, ast.Attribute) and isinstance(c.func.value, ast.Name) \
                    and c.func.attr == "add" and len(c.args) == 1 and not c.keywords:
                name = c.func.value.id
                self.check_mutation(st, name)

                def compute():
                    if name not in env or env[name].type[0] != "set":
                        self.bad(st, "`.add` on something that is not a set variable")
                    s = env[name]
                    v, t = self.expr(c.args[0], env)
                    et = t if s.type[1] is None else self.unify(s.type[1], t)
                    if et is None or (s.type[1] is not None and et != s.type[1]):
                        self.bad(st, "add of a %r to a set of %r" % (t, s.type[1]))
                    return "(pySetAdd %s %s)" % (s.lean, self.coerce(v, t, et, st)), SET(et)
                return self.assign(name, compute, env, kr, st)
            if isinstance(c.func, ast.Attribute) and isinstance(c.func.value, ast.Name) and c.func.attr == "append":
                self.check_mutation(st, c.func.value.id)
        if isinstance(st, ast.For):
            return self.for_stmt(st, rest, env, k)
        if isinstance(st, ast.If):
            return self.if_stmt(st, rest, env, k)
        return TF.FuncTranslator.block(self, stmts, env, k)

    def raise_stmt(self, st, env):
        exc = st.exc
        name = ast.unparse(exc.func) if isinstance(exc, ast.Call) else (ast.unparse(exc) if exc is not None else "")
        if name not in EXCEPTIONS:
            self.bad(st, "raise of `%s`: only %s are mapped to an error value" % (name, ", ".join(sorted(EXCEPTIONS))))
        if isinstance(exc, ast.Call):
            for a in list(exc.args) + [kw.value for kw in exc.keywords]:
                if not self.harmless(a):
                    self.bad(st, "the exception message must be a harmless expression (it is not modelled)")
        return self.wrap_err(EXCEPTIONS[name], env)

    def unpack(self, tgt, value, env, kr, st):
        if not all(isinstance(e, ast.Name) for e in tgt.elts):
            self.bad(st, "only `a, b = e` with plain names")
        self.henv = env

        def compute():
            return self.expr(value, env)

        def cont(vt):
            v, t = vt
            if t[0] != "tuple" or len(t[1]) != len(tgt.elts):
                self.bad(st, "unpacking needs a tuple of %d components, got %r" % (len(tgt.elts), t))
            n = len(t[1])
            env2 = dict(env)
            lets = []
            tmp = v
            if not (v.replace("_", "").replace(".", "").isalnum()):
                tmp = self.fresh("t")
                lets.append("let %s := %s;" % (tmp, v))
            for i, e in enumerate(tgt.elts):
                ln = lean_ident(e.id)
                lets.append("let %s := %s%s;" % (ln, tmp, ".2" * i + (".1" if i < n - 1 else "")))
                env2[e.id] = Var(ln, t[1][i])
            return "\n".join(lets) + "\n" + kr(env2)
        return self.with_hoists(compute, cont)

    def setitem(self, st, tgt, env, kr):
        if not isinstance(tgt.value, ast.Name) or isinstance(tgt.slice, ast.Slice):
            self.bad(st, "only `name[i] = e`")
        name = tgt.value.id
        self.check_mutation(st, name)

        def compute():
            if name not in env or env[name].type[0] != "list" or env[name].type[1] is None:
                self.bad(st, "item assignment on something that is not a list variable")
            lst = env[name]
            # Python evaluates the right-hand side first, then the target's index
            v, t = self.expr(st.value, env)
            i = self.nat_bound(tgt.slice, env)
            if self.unify(lst.type[1], t) != lst.type[1]:
                self.bad(st, "item of type %r assigned into a list of %r" % (t, lst.type[1]))
            new = self.hoist(st, "(pySetItem %s %s %s)" % (lst.lean, i, self.coerce(v, t, lst.type[1], st)),
                             "except", name)
            return new, lst.type
        return self.assign(name, compute, env, kr, st)

    # -- file system ------------------------------------------------------------------------------
    OPEN_READ = {"mode": "rt", "newline": "", "encoding": "utf-8"}
    OPEN_WRITE = {"mode": "wt", "newline": "", "encoding": "utf-8"}

    def with_stmt(self, st, rest, env, k):
        if FSKEY not in env:
            self.bad(st, "file access in a function of level < 2")
        if len(st.items) != 1 or not isinstance(st.items[0].optional_vars, ast.Name):
            self.bad(st, "only `with <open(...)> as name:`")
        fobj = st.items[0].optional_vars.id
        c = st.items[0].context_expr
        if not isinstance(c, ast.Call):
            self.bad(st, "only `with <open(...)> as name:`")
        fname = ast.unparse(c.func)
        if fname == "io.open" and len(c.args) == 1:
            path_node = c.args[0]
        elif isinstance(c.func, ast.Attribute) and c.func.attr == "open" and not c.args:
            path_node = c.func.value
        else:
            self.bad(st, "only `path.open(...)` / `io.open(path, ...)`")
        kws = {}
        for kw in c.keywords:
            if kw.arg is None or not isinstance(kw.value, ast.Constant):
                self.bad(st, "open(): only constant keyword arguments")
            kws[kw.arg] = kw.value.value
        body = [s for s in st.body if not self.is_dropped(s)]
        if len(body) != 1:
            self.bad(st, "the body of `with open(...)` must be exactly one read or one write")
        b = body[0]
        self.henv = env

        def path_expr():
            p, tp = self.expr(path_node, env)
            if tp not in (PATH, STR) or (fname != "io.open" and tp != PATH):
                self.bad(st, "open() of a value of type %r" % (tp,))
            return p

        def is_method(call, meth):
            return (isinstance(call, ast.Call) and isinstance(call.func, ast.Attribute) and call.func.attr == meth
                    and _is_name(call.func.value, fobj) and not call.keywords)
        why = ("the abstract file system holds the decoded text with untranslated newlines: "
               "open() must say mode=%r, newline='' and encoding='utf-8' exactly")
        if isinstance(b, ast.Assign) and len(b.targets) == 1 and isinstance(b.targets[0], ast.Name) \
                and is_method(b.value, "read") and not b.value.args:
            if kws != self.OPEN_READ:
                self.bad(st, why % "rt")
            target = b.targets[0].id

            def compute():
                v = self.hoist(st, "(pyRead %s %s)" % (self.fs_of(env), path_expr()), "except", target)
                return v, STR
            return self.assign(target, compute, env, lambda e: self.block(rest, e, k), st)
        if isinstance(b, ast.Expr) and is_method(b.value, "write") and len(b.value.args) == 1:
            if kws != self.OPEN_WRITE:
                self.bad(st, why % "wt")

            def compute():
                p = path_expr()
                v, t = self.expr(b.value.args[0], env)
                if t != STR:
                    self.bad(st, "write() of a value of type %r" % (t,))
                return "(FS.write %s %s %s)" % (self.fs_of(env), p, v), FSTYPE

            def cont(vt):
                nf = self.fresh("fs")
                env2 = dict(env)
                env2[FSKEY] = Var(nf, FSTYPE)
                return "let %s := %s;\n%s" % (nf, vt[0], self.block(rest, env2, k))
            return self.with_hoists(compute, cont)
        self.bad(st, "the body of `with open(...)` must be `x = f.read()` or `f.write(e)`")

    def effect_call(self, node):
        """(callee, call node) when `node` is `f(...)` or `list(f(...))` with f of level 2"""
        if isinstance(node, ast.Call) and _is_name(node.func, "list") and len(node.args) == 1 and not node.keywords:
            inner = node.args[0]
            if isinstance(inner, ast.Call):
                cal = self.callee(inner.func)
                if cal is not None and cal["level"] == 2 and cal.get("generator"):
                    return cal, inner
            return None
        if isinstance(node, ast.Call):
            cal = self.callee(node.func)
            if cal is not None and cal["level"] == 2:
                if cal.get("generator"):
                    self.bad(node, "a generator that touches the file system must be consumed by `for` or `list(...)`")
                return cal, node
        return None

    def fs_call(self, st, cal, call, target, env, kr):
        if FSKEY not in env:
            self.bad(st, "file access in a function of level < 2")
        self.henv = env

        def compute():
            return self.call_args(call, cal, env)

        def cont(parts):
            nf = self.fresh("fs")
            ex = self.fresh("ex")
            env2 = dict(env)
            env2[FSKEY] = Var(nf, FSTYPE)
            if target is None:
                ln = "_"
            else:
                ln = lean_ident(target)
                env2[target] = Var(ln, cal["ret"])
            app = "(%s %s)" % (cal["lean"], " ".join(parts + [self.fs_of(env)]))
            return "(match %s with\n  | (%s, Except.error %s) => %s\n  | (%s, Except.ok %s) => %s)" % (
                app, nf, ex, _arm(self.wrap_err(ex, env2)), nf, ln, _arm(kr(env2)))
        return self.with_hoists(compute, cont)

    # -- try / except ---------------------------------------------------------------------------------
    def try_stmt(self, st, rest, env, k):
        if st.orelse or st.finalbody or len(st.handlers) != 1:
            self.bad(st, "only `try: … except Cls [as name]: …`")
        h = st.handlers[0]
        cls = ast.unparse(h.type) if h.type is not None else ""
        if cls not in EXCEPTIONS:
            self.bad(st, "except `%s`: only %s are mapped" % (cls, ", ".join(sorted(EXCEPTIONS))))
        if h.name and self.uses_of(h.name, h.body) != 0:
            self.bad(st, "the caught exception object is only supported inside messages")
        caught = EXCEPTIONS[cls]
        outer = list(self.handlers)

        def handler(e, env_at):
            # `e` is a Lean term of type RwErr; the handler runs when it is the caught class
            saved = self.handlers
            self.handlers = outer
            try:
                hb = self.block(list(h.body), env_at, lambda e2: self.block(rest, e2, k))
                other = self.wrap_err(e, env_at)
            finally:
                self.handlers = saved
            if e == caught:
                return hb
            return "(if %s == %s then %s else %s)" % (e, caught, _nl(hb), _nl(other))

        def after(e):
            # leaving the try body: the handler is no longer installed
            saved = self.handlers
            self.handlers = outer
            try:
                return self.block(rest, e, k)
            finally:
                self.handlers = saved
        self.handlers = outer + [handler]
        try:
            return self.block(list(st.body), env, after)
        finally:
            self.handlers = outer

    # -- loops --------------------------------------------------------------------------------------------
    def iterable(self, node, env):
        v, t = self.iter_value(node, env)
        return v, t[1]

    def inline_generator(self, st, cal, call):
        """`for T in G(args): B` with G a generator with effects, consumed lazily: G's body with the
        locals renamed and `yield e` replaced by `T = e; B`"""
        key = cal["key"]
        _, gdef = self.src.find(key[0], ast.FunctionDef, key[1])
        if gdef is None:
            self.bad(st, "generator %s not found" % (key,))
        if key[0] != self.file:
            for n in ast.walk(gdef):
                if isinstance(n, ast.Call) and isinstance(n.func, ast.Name) and n.func.id not in EXCEPTIONS \
                        and n.func.id not in ("list", "sorted", "set", "len", "str", "enumerate"):
                    self.bad(st, "the inlined generator calls `%s` by its bare name" % n.func.id)
        for n in ast.walk(gdef):
            if isinstance(n, ast.Return):
                self.bad(st, "`return` inside an inlined generator")
        for b in st.body:
            for n in ast.walk(b):
                if isinstance(n, (ast.Break, ast.Continue, ast.Return)):
                    self.bad(st, "break/continue/return in the body of a loop over an inlined generator")
        if self.inline_depth > 4:
            self.bad(st, "generator inlining too deep")
        prefix = "_%s%d_" % (key[1].strip("_")[:4], self.counter)
        self.counter += 1
        names = local_names(gdef)
        args = self.bind_args(call, cal)
        binds = []
        for (p, _), a in zip(cal["params"], args):
            binds.append(ast.Assign(targets=[ast.Name(id=prefix + p, ctx=ast.Store())], value=a))
        body = [_Renamer(names, prefix).visit(copy.deepcopy(s)) for s in gdef.body]

        def mk(val):
            return [ast.Assign(targets=[copy.deepcopy(st.target)], value=val)] + copy.deepcopy(st.body)
        body = replace_yields(self.fn, body, mk)
        out = binds + body
        for n in out:
            ast.copy_location(n, st)
            ast.fix_missing_locations(n)
        self.fbody = self.fbody + out            # liveness is judged on the code as inlined
        self.compute_dead()
        self.mutable_ok |= {prefix + n for n in self.analyse_aliasing(gdef)}
        return out

    def for_stmt(self, st, rest, env, k):
        if st.orelse:
            self.bad(st, "for … else")
        it = st.iter
        # a generator WITH EFFECTS consumed lazily: inline it
        if isinstance(it, ast.Call):
            cal = self.callee(it.func)
            if cal is not None and cal.get("generator") and cal["level"] == 2:
                self.inline_depth += 1
                try:
                    return self.block(self.inline_generator(st, cal, it) + rest, env, k)
                finally:
                    self.inline_depth -= 1
        # `for x in list(G(...))` / `sorted(G(...))`: the generator runs to exhaustion first
        for wrapper in ("list", "sorted"):
            if isinstance(it, ast.Call) and _is_name(it.func, wrapper) and it.args and isinstance(it.args[0], ast.Call):
                cal = self.callee(it.args[0].func)
                if cal is not None and cal.get("generator") and cal["level"] == 2:
                    tmp = "_items%d" % self.counter
                    self.counter += 1
                    a = ast.Assign(targets=[ast.Name(id=tmp, ctx=ast.Store())],
                                   value=ast.Call(func=ast.Name(id="list", ctx=ast.Load()), args=[it.args[0]], keywords=[]))
                    newit = ast.Name(id=tmp, ctx=ast.Load())
                    if wrapper == "sorted":
                        newit = ast.Call(func=it.func, args=[newit] + it.args[1:], keywords=it.keywords)
                    f2 = copy.copy(st)
                    f2.iter = newit
                    for n in (a, f2):
                        ast.copy_location(n, st)
                        ast.fix_missing_locations(n)
                    return self.block([a, f2] + rest, env, k)
        # tuple target: `for a, b in xs: B`  =  `for it in xs: a, b = it; B`
        if isinstance(st.target, (ast.Tuple, ast.List)):
            tmp = "_it%d" % self.counter
            self.counter += 1
            un = ast.Assign(targets=[st.target], value=ast.Name(id=tmp, ctx=ast.Load()))
            f2 = copy.copy(st)
            f2.target = ast.Name(id=tmp, ctx=ast.Store())
            f2.body = [un] + list(st.body)
            for n in (un, f2):
                ast.copy_location(n, st)
                ast.fix_missing_locations(n)
            return self.for_stmt(f2, rest, env, k)
        if not isinstance(st.target, ast.Name):
            self.bad(st, "loop target")
        body = [s for s in st.body if not self.is_dropped(s) and not self.is_dead_assignment(s)]
        if not body:
            self.henv = env
            return self.with_hoists(lambda: self.iterable(st.iter, env), lambda _: self.block(rest, env, k))
        if self.level >= 1 and any(self.may_raise(s) for s in body):
            return self.effect_loop(st, body, rest, env, k)
        # a pure loop: translate_funcs' fold (the iterable may still need hoisting)
        if self.may_raise(st.iter):
            tmp = "_xs%d" % self.counter
            self.counter += 1
            a = ast.Assign(targets=[ast.Name(id=tmp, ctx=ast.Store())], value=st.iter)
            f2 = copy.copy(st)
            f2.iter = ast.Name(id=tmp, ctx=ast.Load())
            for n in (a, f2):
                ast.copy_location(n, st)
                ast.fix_missing_locations(n)
            return self.block([a, f2] + rest, env, k)
        return TF.FuncTranslator.for_stmt(self, st, rest, env, k)

    def effect_loop(self, st, body, rest, env, k):
        self.henv = env

        def compute():
            return self.iterable(st.iter, env)

        def cont(xt):
            return self.effect_loop1(st, body, rest, env, k, xt[0], xt[1])
        return self.with_hoists(compute, cont)

    def effect_loop1(self, st, body, rest, env, k, xs, et):
        x = lean_ident(st.target.id)
        env_in = dict(env)
        env_in[st.target.id] = Var(x, et)
        if TF.FuncTranslator.contains_exit(self, [s for s in body if not isinstance(s, ast.Raise)], allow_continue=True) \
                and any(isinstance(n, (ast.Return, ast.Break)) for s in body for n in ast.walk(s)):
            self.bad(st, "return/break inside a loop whose body can raise")
        # the handlers of an enclosing `try` stay in force inside the body; errors leave the loop
        # through the loop combinator, so inside the body an uncaught error is a plain error result

        def run_body(e, kk):
            self.loop_k.append(kk)
            try:
                return self.block(body, e, kk)
            finally:
                self.loop_k.pop()
        if self.handlers:
            self.bad(st, "a loop that can raise inside `try`")
        saved = self.counter
        probes = []

        def pk(e):
            probes.append(e)
            return "?"
        fs_in = None
        if self.level == 2:
            fs_in = "fs_%d_" % self.counter
            env_in[FSKEY] = Var(fs_in, FSTYPE)
        run_body(env_in, pk)
        self.counter = saved
        names = [n for n in self.changed_vars(env_in, probes) if n in env and n != FSKEY]
        st_types = {}
        for n in names:
            t = env[n].type
            for pe in probes:
                t = self.unify(t, pe[n].type) if t is not None else None
            if t is None or (t[0] in ("list", "set") and t[1] is None):
                self.bad(st, "cannot type the loop-carried variable `%s`" % n)
            if t == LIT:
                t = INT
            st_types[n] = t
        env_body = dict(env_in)
        for n in names:
            env_body[n] = Var(lean_ident(n), st_types[n])
        probes2 = []
        saved = self.counter
        run_body(env_body, lambda e: (probes2.append(e), "?")[1])
        self.counter = saved
        for pe in probes2:
            for n in names:
                if self.unify(pe[n].type, st_types[n]) != st_types[n]:
                    self.bad(st, "the type of `%s` changes from iteration to iteration" % n)

        def tup(e):
            vals = [self.coerce(e[n].lean, e[n].type, st_types[n], st) for n in names]
            if not vals:
                return "()"
            return vals[0] if len(vals) == 1 else "(" + ", ".join(vals) + ")"
        tys = [self.lean_type(st_types[n]) for n in names]
        sty = "Unit" if not tys else (tys[0] if len(tys) == 1 else " × ".join(tys))
        if not names:
            pat = "()"
        elif len(names) == 1:
            pat = lean_ident(names[0])
        else:
            pat = "(" + ", ".join(lean_ident(n) for n in names) + ")"
        init = tup(env)
        env2 = dict(env)
        for n in names:
            env2[n] = Var(lean_ident(n), st_types[n])
        ex = self.fresh("ex")
        if self.level == 1:
            step = run_body(env_body, lambda e: "(Except.ok %s)" % tup(e))
            loop = "(pyForE %s (fun (%s : %s) (st : %s) =>\n    (match st with\n      | %s =>\n%s))\n  %s)" % (
                xs, x, self.lean_type(et), sty, pat, indent(step, 8), init)
            return "(match %s with\n  | Except.error %s => %s\n  | Except.ok %s => %s)" % (
                loop, ex, _arm(self.wrap_err(ex, env)), pat, _arm(self.block(rest, env2, k)))
        step = run_body(env_body, lambda e: "(%s, Except.ok %s)" % (self.fs_of(e), tup(e)))
        loop = "(pyForFS %s (fun (%s : %s) (st : %s) (%s : FS) =>\n    (match st with\n      | %s =>\n%s))\n  %s %s)" % (
            xs, x, self.lean_type(et), sty, fs_in, pat, indent(step, 8), init, self.fs_of(env))
        nf = self.fresh("fs")
        env2[FSKEY] = Var(nf, FSTYPE)
        return "(match %s with\n  | (%s, Except.error %s) => %s\n  | (%s, Except.ok %s) => %s)" % (
            loop, nf, ex, _arm(self.wrap_err(ex, env2)), nf, pat, _arm(self.block(rest, env2, k)))

    # -- the whole function ------------------------------------------------------------------------
    def translate(self):
        spec = self.spec
        src, node = self.src.find(spec["file"], ast.FunctionDef, spec["func"])
        if node is None:
            raise Untranslatable(self.fn, None, "function not found in %s" % spec["file"])
        self.source_text = ast.get_source_segment(src, node)
        a = node.args
        if a.vararg or a.kwarg or a.kwonlyargs or a.posonlyargs:
            self.bad(node, "only plain positional parameters")
        pynames = [x.arg for x in a.args]
        if pynames != [p for p, _ in spec["params"]]:
            self.bad(node, "parameters are %s, the signature table expects %s" % (pynames, [p for p, _ in spec["params"]]))
        for d in a.defaults:
            if not (isinstance(d, ast.Constant) and (d.value is None or isinstance(d.value, str))):
                self.bad(node, "only `= None` / string parameter defaults")
        if has_yield(node) != bool(spec.get("generator")):
            self.bad(node, "the signature table says generator=%s" % bool(spec.get("generator")))
        for n in ast.walk(node):
            if isinstance(n, ast.Name) and n.id == FSKEY:
                self.bad(n, "the name `%s` is reserved" % FSKEY)
        self.mutable_ok = self.analyse_aliasing(node)
        if spec.get("generator"):
            node = exhaust_generator(self.fn, node)
            self.mutable_ok.add(YIELD)
        self.fbody = list(node.body)
        self.compute_dead()
        env = {}
        params = []
        for p, t in spec["params"]:
            if t[0] == "rec":
                self.record(t[1])
            env[p] = Var(lean_ident(p), t)
            params.append("(%s : %s)" % (lean_ident(p), self.lean_type(t)))
        used_f = []
        for key, (ln, t) in spec.get("fparams", {}).items():
            params.append("(%s : %s)" % (ln, self.lean_type(t)))
            used_f.append(ln)
        rt = self.lean_type(spec["ret"])
        if self.level >= 1:
            rt = "Except RwErr " + self.paren_type(spec["ret"])
        if self.level == 2:
            env[FSKEY] = Var(FSKEY, FSTYPE)
            params.append("(%s : FS)" % FSKEY)
            rt = "FS × " + rt

        def fall_off(e):
            return self.ret(None, e, node)
        body = self.block(list(node.body), env, fall_off)
        for ln in used_f:
            if ln not in body:
                self.bad(node, "the function parameter `%s` is not called" % ln)
        head = "def %s %s : %s :=" % (spec["name"], " ".join(params), rt)
        return [], head + "\n" + indent(body, 2) + "\n"


# ----------------------------------------------------------------------------------
# the prelude: TRUSTED primitives (constant text) + structures generated from the classes
# ----------------------------------------------------------------------------------
PRELUDE = r'''
/-! ### trusted primitives (constant text of harness/translate_rewrite.py; see TRANSLATE_REWRITE.md) -/

/-- a `re.Match` object: the searched string and the span of group 0 -/
structure PyMatch where
  string : Str
  start : Nat
  stop : Nat
  deriving DecidableEq, Repr

/-- `regexp.search(s)` (the regex engine is the model primitive `reSearch`) -/
def pySearch (r : Re) (s : Str) : Option PyMatch :=
  (reSearch r s).map (fun m => { string := s, start := m.start, stop := m.stop })

/-- `m.span()` -/
def PyMatch.span (m : PyMatch) : Nat × Nat := (m.start, m.stop)

/-- `m.group(0)` = `m.string[m.start():m.end()]` -/
def PyMatch.group0 (m : PyMatch) : Str := List.take (m.stop - m.start) (List.drop m.start m.string)

/-- `enumerate(xs, n)` -/
def pyEnumerateFrom {α : Type} : Nat → List α → List (Nat × α)
  | _, [] => []
  | n, x :: xs => (n, x) :: pyEnumerateFrom (n + 1) xs

/-- `enumerate(xs)` -/
def pyEnumerate {α : Type} (xs : List α) : List (Nat × α) := pyEnumerateFrom 0 xs

/-! sets: duplicate free lists in insertion order (iteration order is never observed by the
    translated functions except in dropped logging loops) -/
def pySetEmpty {α : Type} : List α := []
def pySetAdd {α : Type} [BEq α] (s : List α) (x : α) : List α := if s.contains x then s else s ++ [x]
def pySetOfList {α : Type} [BEq α] (xs : List α) : List α := xs.foldl pySetAdd []
def pySetEq {α : Type} [BEq α] (a b : List α) : Bool := a.all (fun x => b.contains x) && b.all (fun x => a.contains x)
def pySetDiff {α : Type} [BEq α] (a b : List α) : List α := a.filter (fun x => !b.contains x)

/-- insertion before the first element that is not smaller -/
def pyInsertBy {α : Type} (le : α → α → Bool) (x : α) : List α → List α
  | [] => [x]
  | y :: ys => if le x y then x :: y :: ys else y :: pyInsertBy le x ys

/-- `sorted(xs, key=key)`: ascending by key, STABLE (`lt` is `<` on the keys) -/
def pySortedBy {α κ : Type} (key : α → κ) (lt : κ → κ → Bool) (xs : List α) : List α :=
  xs.foldr (pyInsertBy (fun a b => !(lt (key b) (key a)))) []

/-- `xs[i]` for `i ≥ 0` (IndexError ↦ `crash keyError`: LookupError) -/
def pyGetItem {α : Type} (xs : List α) (i : Nat) : Except RwErr α :=
  match xs[i]? with
  | some v => .ok v
  | none => .error (.crash .keyError)

/-- `xs[i] = v` for `i ≥ 0` -/
def pySetItem {α : Type} (xs : List α) (i : Nat) (v : α) : Except RwErr (List α) :=
  if i < xs.length then .ok (xs.set i v) else .error (.crash .keyError)

/-- `s.split(sep)` (ValueError for an empty separator) -/
def pySplit (s sep : Str) : Except RwErr (List Str) :=
  if sep.isEmpty then .error (.crash .valueError) else .ok (splitOn sep s)

/-- `for x in xs: body` where the body can raise: stops at the first error -/
def pyForE {β σ ε : Type} (xs : List β) (body : β → σ → Except ε σ) (init : σ) : Except ε σ :=
  match xs with
  | [] => .ok init
  | x :: rest =>
    match body x init with
    | .error e => .error e
    | .ok st => pyForE rest body st

/-- `for x in xs: body` where the body can raise and touches the file system -/
def pyForFS {β σ ε : Type} (xs : List β) (body : β → σ → FS → FS × Except ε σ) (init : σ) (fs : FS) :
    FS × Except ε σ :=
  match xs with
  | [] => (fs, .ok init)
  | x :: rest =>
    match body x init fs with
    | (fs', .error e) => (fs', .error e)
    | (fs', .ok st) => pyForFS rest body st fs'

/-- `Path(p).exists()` -/
def pyExists (fs : FS) (p : Str) : Bool := (lookup p fs).isSome

/-- `with open(p, mode="rt", newline='', encoding="utf-8") as f: f.read()` -/
def pyRead (fs : FS) (p : Str) : Except RwErr Str :=
  match lookup p fs with
  | some c => .ok c
  | none => .error .missingFile
'''


def render_types(sources):
    """Gen/F_rewriteTypes.lean"""
    fname = "F_rewriteTypes.lean"
    head = [
        "/- GENERATED by harness/translate_rewrite.py. Do not edit.",
        "   the trusted primitives of the translation (constant text) and the structures generated from the",
        "   NamedTuple classes patterns.Pattern, parse.PatternMatch, rewrite.RewrittenFileData -/",
    ]
    try:
        tr = RewriteTranslator(dict(func="(types)", file="parse.py", name="rewriteTypes", params=[], ret=UNIT), sources)
        for (f, name), rhs in ALIASES.items():
            src, tree = sources.module(f)
            found = [ast.unparse(n.value) for n in tree.body if isinstance(n, ast.Assign) and len(n.targets) == 1
                     and _is_name(n.targets[0], name)]
            if found != [rhs]:
                raise Untranslatable("(types)", None, "%s: `%s` must be the alias `%s = %s`, found %s" % (f, name, name, rhs, found))
        decls = []
        hashes = []
        for rn in GENERATED_RECORDS:
            r = tr.record(rn)
            f, cls = r["source"]
            src, node = sources.find(f, ast.ClassDef, cls)
            hashes.append("   %-28s sha256 %s" % ("%s.%s" % (f[:-3], cls), sha256(ast.get_source_segment(src, node))))
            out = ["/-- `%s.%s` (NamedTuple), generated from the class definition -/" % (f[:-3], cls)]
            out.append("structure %s where" % r["leanname"])
            for pf, path, ft in r["fields"]:
                out.append("  %s : %s" % (path, tr.lean_type(ft)))
            out.append("  deriving %s" % r["derive"])
            decls.append("\n".join(out) + "\n")
    except Untranslatable as ex:
        return fname, "\n".join(head[:-1] + [head[-1][:-3], "", "   UNTRANSLATABLE: %s -/" % str(ex).replace("-/", "- /"), ""]), ex
    except Exception as ex:  # noqa: BLE001
        return fname, "\n".join(head[:-1] + [head[-1][:-3], "", "   UNTRANSLATABLE: %s: %s -/" % (type(ex).__name__, str(ex).replace("-/", "- /")), ""]), ex
    lines = head[:-1] + [head[-1][:-3]] + hashes + ["-/"]
    lines.append("import BumpverVerif.Model.Rewrite")
    lines.append("import BumpverVerif.Model.ReDecEq")
    lines.append("set_option linter.unusedVariables false")
    lines.append("namespace BV")
    lines.append("")
    lines.append("/- `re.Pattern.__eq__`: structural equality of the regex (the model identifies a compiled regex")
    lines.append("   with its syntax tree): the instance `DecidableEq Re` of Model/ReDecEq.lean -/")
    lines.append("")
    lines.append("namespace GenF")
    lines.append(PRELUDE)
    lines.append("/-! ### structures generated from the class definitions -/")
    lines.append("")
    for d in decls:
        lines.append(d)
    lines.append("end GenF")
    lines.append("end BV")
    lines.append("")
    return fname, "\n".join(lines), None


def header(spec, text, extra):
    where = "src/bumpver/%s" % spec["file"]
    return [
        "/- GENERATED by harness/translate_rewrite.py from the Python AST. Do not edit.",
        "   source   : %s" % where,
        "   function : %s" % spec["func"],
        "   sha256   : %s" % (sha256(text) if text else "(function not found)"),
    ] + extra


def render(spec, sources):
    fname = "F_%s.lean" % spec["name"]
    tr = RewriteTranslator(spec, sources)
    try:
        _, body = tr.translate()
    except Untranslatable as ex:
        lines = header(spec, getattr(tr, "source_text", None), [
            "",
            "   UNTRANSLATABLE: %s" % str(ex).replace("-/", "- /"),
            "   (no definition is generated; BV.tie_%s cannot compile until this is resolved) -/" % spec["name"],
            "",
        ])
        return fname, "\n".join(lines), ex
    except Exception as ex:  # noqa: BLE001  never a silent success
        lines = header(spec, getattr(tr, "source_text", None), [
            "",
            "   UNTRANSLATABLE: the source could not be read/parsed/translated: %s: %s -/"
            % (type(ex).__name__, str(ex).replace("-/", "- /")),
            "",
        ])
        return fname, "\n".join(lines), ex
    lines = header(spec, tr.source_text, [])
    lines[-1] += "  (of the function's source text)"
    kinds = {0: "pure", 1: "can raise: Except RwErr", 2: "file system + can raise: FS → FS × Except RwErr"}
    lines.append("   effects  : level %d (%s)%s -/" % (spec["level"], kinds[spec["level"]],
                                                      ", generator run to exhaustion" if spec.get("generator") else ""))
    for imp in tr.imports:
        lines.append("import %s" % imp)
    lines.append("set_option linter.unusedVariables false")
    lines.append("namespace BV.GenF")
    lines.append("")
    lines.append("/-- `%s.%s` -/" % (spec["file"][:-3], spec["func"]))
    lines.append(body)
    lines.append("end BV.GenF")
    lines.append("")
    return fname, "\n".join(lines), None


def generate(report=None):
    """{filename: content} for lean/BumpverVerif/Gen/"""
    sources = TF.Sources()
    out = {}
    fname, content, err = render_types(sources)
    out[fname] = content
    if report is not None:
        report.append(("(types)", fname, err))
    for spec in FUNCS:
        fname, content, err = render(spec, sources)
        out[fname] = content
        if report is not None:
            report.append((spec["func"], fname, err))
    return out


def main():
    rep = []
    files = generate(rep)
    gen = os.path.join(os.path.dirname(HERE), "lean", "BumpverVerif", "Gen")
    if "--write" in sys.argv:
        for name, content in files.items():
            path = os.path.join(gen, name)
            old = open(path, encoding="utf-8").read() if os.path.exists(path) else None
            if old != content:
                with open(path, "w", encoding="utf-8") as f:
                    f.write(content)
                print("wrote", name)
    for func, fname, err in rep:
        print("%-28s %-32s %s" % (func, fname, "ok" if err is None else "UNTRANSLATABLE: %s" % err))
    if "--show" in sys.argv:
        for name, content in files.items():
            if name == "F_rewriteTypes.lean" and "--types" not in sys.argv:
                continue
            print("=" * 20, name)
            print(content)
    return 0


if __name__ == "__main__":
    sys.exit(main())
