#!/venv/bin/python
"""Python -> Lean translator for the functions through which VALUES reach the VCS and the hooks
(property C12, and the hook clause of C10):

    vcs.VCSAPI.__init__, vcs.VCSAPI.__call__, VCSAPI.commit / tag / push_tag / add,
    cli._sub_msg_template, the message part of cli.update, hooks.run.

`harness/translate_effects.py` (builder B) treats `VCSAPI.__call__` and `hooks.run` as PRIMITIVE effects that
only record which subcommand / hook ran, and erases environments, temporary files and byte strings.  This
module reuses B's statement translator (`EffTranslator`: hoisting into A-normal form, `if` joins, `try`,
narrowing, ...) but reads the result in the richer monad `BV.TieK.Eff` of lean/BumpverVerif/Model/EffK.lean,
in which a VCS process is recorded with its complete ARGV and environment, the temporary log file of
`hg commit` and the hook process are visible, and `str.format` / `shlex.split` / `re.sub` / dict lookups are
explicit (raising) steps.  Nothing of those is erased here.

The generated definitions live in the namespace `BV.TieK.Gen` (files `Gen/F_argv*.lean`); inside it the names
`Eff.bind`, `Eff.pure`, `Stop`, `VcsApi`, ... resolve to `BV.TieK.*` — the same generated TEXT B's translator
emits, interpreted in the other monad.  Supported subset, effects and trusted primitives:
harness/TRANSLATE_ARGV.md.  Anything outside the subset raises `Untranslatable`; the output file then holds
only a comment `UNTRANSLATABLE: ...`, so that exactly the ties that depend on that function stop compiling.
"""
import ast
import copy
import os
import sys

HERE = os.path.dirname(os.path.abspath(__file__))
sys.path.insert(0, HERE)

import translate_funcs as TF                                               # noqa: E402
import translate_effects as TE                                             # noqa: E402
from translate_funcs import (Untranslatable, Var, BOOL, INT, NAT, LIT, STR, NONE, OPT, LIST,  # noqa: E402
                             TUP, REC, ENUM, DICT, lean_ident, indent, sha256, _arm)
from translate_effects import (UNIT, ERASED, EXC, Bind, wrap_binds)  # noqa: E402


def lean_chars(s):
    """a Lean `Str` literal as an explicit list of characters (as translate_effects.lean_chars; characters outside
    printable ASCII are written `'\\uXXXX'`, Lean's escape)"""
    if not s:
        return TE.lean_chars(s)
    items = []
    for ch in s:
        if 32 <= ord(ch) < 127 or ch in "\n\t\r":
            items.append(TE.lean_chars(ch)[1:-1])
        elif ord(ch) <= 0xFFFF:
            items.append("'\\u%04x'" % ord(ch))
        else:
            raise ValueError("character outside the BMP in a literal: %r" % s)
    return "[" + ", ".join(items) + "]"


BYTES = ("bytes",)          # a byte string (modelled as the text it encodes: Lean `Str`)
TMPFILE = ("tmpfile",)      # tempfile.NamedTemporaryFile("wb", delete=False)
PROC = ("proc",)            # sp.Popen(...)
ENVMAP = DICT(STR, STR)     # a process environment / Dict[str, str]
TABLES2 = DICT(STR, ENVMAP)  # VCS_SUBCOMMANDS_BY_NAME

GEN_NS = "BV.TieK.Gen"
TYPES_FILE = "F_argvTypes.lean"
TYPES_MODULE = "BumpverVerif.Gen.F_argvTypes"
MODEL_MODULE = "BumpverVerif.Model.EffK"

VCSAPI = REC("VcsApi")
CONFIG = REC("Config")

DICTGET = "__dictget__"     # synthetic call: `d[k]` in Load context (a KeyError is an effect)

# ----------------------------------------------------------------------------------
# the signature table
# ----------------------------------------------------------------------------------
KFUNCS = [
    # VCSAPI.__init__(self, name, subcommands=None): the record it builds
    dict(name="argvInit", file="vcs.py", cls="VCSAPI", func="__init__", ctor=True,
         params=[("self", None), ("name", STR), ("subcommands", OPT(ENVMAP))], ret=VCSAPI,
         imports=["BumpverVerif.Gen.VcsTemplates"]),
    dict(name="argvCall", file="vcs.py", cls="VCSAPI", func="__call__",
         params=[("self", VCSAPI), ("cmd_name", STR), ("env", OPT(ENVMAP))], kwarg=("kwargs", ENVMAP), ret=STR),
    dict(name="argvSubMsgTemplate", file="cli.py", func="_sub_msg_template",
         params=[("message", STR)], ret=STR),
    # the MESSAGE PART of cli.update: the backward data-flow slice of the 3rd and 4th argument of the call
    # `_try_update(cfg, new_version, <commit message>, <tag message>, allow_dirty)`; the variables named in
    # `inputs` are its parameters (their values where the slice begins), everything else is followed back
    dict(name="argvUpdateMessages", file="cli.py", func="update", generic=True,
         slice=dict(call="_try_update", args=[2, 3], argnames=["commit_message", "tag_message"]),
         params=[("cfg", CONFIG), ("commit_message", OPT(STR)), ("tag_message", OPT(STR)),
                 ("old_version", STR), ("new_version", STR)], ret=TUP(STR, STR),
         imports=["BumpverVerif.Model.CliPrims"]),
    dict(name="argvCommit", file="vcs.py", cls="VCSAPI", func="commit",
         params=[("self", VCSAPI), ("message", STR)], ret=UNIT),
    dict(name="argvTag", file="vcs.py", cls="VCSAPI", func="tag",
         params=[("self", VCSAPI), ("tag_name", STR), ("tag_message", STR)], ret=UNIT),
    dict(name="argvPushTag", file="vcs.py", cls="VCSAPI", func="push_tag",
         params=[("self", VCSAPI), ("tag_name", STR)], ret=UNIT),
    dict(name="argvAdd", file="vcs.py", cls="VCSAPI", func="add",
         params=[("self", VCSAPI), ("path", STR)], ret=UNIT),
    dict(name="argvHooksRun", file="hooks.py", func="run",
         params=[("path", STR), ("old_version", STR), ("new_version", STR)], ret=UNIT),
]
K_BY_NAME = {d["name"]: d for d in KFUNCS}
# module-level functions of this table that other translated functions may call: (file stem, name) -> spec
K_MODFUNCS = {(d["file"][:-3], d["func"]): d for d in KFUNCS if not d.get("cls") and not d.get("slice")}

# pure calls that are represented by a MODEL function (trusted primitive; tied elsewhere by correspondence)
PURE_MODEL_CALLS = {
    "version.to_pep440": ("pyToPep440", [STR], STR, "BumpverVerif.Model.CliPrims"),
}


class ArgvTranslator(TE.EffTranslator):
    def __init__(self, spec, sources):
        TE.EffTranslator.__init__(self, spec, sources)
        self.k_imports = []

    # ---------------------------------------------------------------- types
    def record(self, name):
        if name == "VcsApi":
            if name not in self.records:
                self.check_vcsapi_class()
                self.records[name] = dict(lean="VcsApi", fields=[("name", "name", STR), ("subcommands", "subcommands", ENVMAP)],
                                          pyorder=["name", "subcommands"])
            return self.records[name]
        return TF.FuncTranslator.record(self, name)

    def lean_type(self, t):
        k = t[0]
        if k == "bytes":
            return "Str"
        if k == "tmpfile":
            return "TmpFile"
        if k == "proc":
            return "Proc"
        return TE.EffTranslator.lean_type(self, t)

    def truthy_of(self, lean, t, node):
        if t[0] in ("bytes",):
            return "(!%s.isEmpty)" % lean
        if t[0] == "dict":
            return "(!%s.isEmpty)" % lean
        return TE.EffTranslator.truthy_of(self, lean, t, node)

    # ---------------------------------------------------------------- nothing but logging detail is erased
    def is_erased(self, node, env):
        if isinstance(node, ast.Name):
            return node.id in env and env[node.id].type == ERASED
        if isinstance(node, ast.Attribute):
            if isinstance(node.value, ast.Name) and node.value.id in env:
                t = env[node.value.id].type
                if t == PROC and node.attr in ("stdout", "stderr"):
                    return True          # the pipes of the hook process: only read for logging
                if t == EXC and node.attr in ("stdout", "cmd", "output", "returncode"):
                    return True
            return self.is_erased(node.value, env)
        if isinstance(node, ast.Call):
            if isinstance(node.func, ast.Attribute) and self.is_erased(node.func.value, env):
                return True
            if isinstance(node.func, ast.Name) and node.func.id == "iter" and "iter" not in env \
                    and any(self.is_erased(a, env) for a in node.args):
                return True          # iter(out.readline, b''): the lines of an erased pipe
            return False
        if isinstance(node, ast.Subscript):
            return self.is_erased(node.value, env)
        return False

    def noop_loop_env(self, st, env):
        """the loop variable of a loop over an erased iterable (the lines of the hook's pipes) is erased too, so
        that statements which only post-process it for logging (`text = line.decode(...).strip()`) are no-ops"""
        if self.is_erased(st.iter, env):
            e = dict(env)
            for n in ast.walk(st.target):
                if isinstance(n, ast.Name):
                    e[n.id] = Var(None, ERASED)
            return e
        return TE.EffTranslator.noop_loop_env(self, st, env)

    def subcommand_of(self, node, env):
        return None

    # ---------------------------------------------------------------- effects
    def effect_kind(self, node, env):
        if isinstance(node, ast.Attribute) and not isinstance(node.ctx, ast.Store):
            d = self.dotted(node)
            if d == "os.environ" and "os" not in env:
                return ("environ",)
            if node.attr == "returncode" and self.static_is(node.value, env, PROC):
                return ("returncode",)
            if node.attr == "stderr" and self.static_is(node.value, env, EXC):
                return ("excstderr",)
            return None
        if not isinstance(node, ast.Call):
            return None
        f = node.func
        d = self.dotted(f)
        if isinstance(f, ast.Name):
            if f.id == DICTGET:
                return ("dictget",)
            if f.id in env and env[f.id].type == VCSAPI:
                return ("call",)
            if f.id == "str" and len(node.args) == 1 and not node.keywords and self.is_absolute(node.args[0]):
                return ("absolute",)
            if f.id not in env and (self.spec["file"][:-3], f.id) in K_MODFUNCS:
                return ("kfunc", K_MODFUNCS[(self.spec["file"][:-3], f.id)])
            return None
        if d == "sys.exit":
            return ("exit",)
        if d == "shlex.split":
            return ("shlex",)
        if d == "re.sub":
            return ("resub",)
        if d in ("sp.check_output", "subprocess.check_output"):
            return ("checkoutput",)
        if d in ("sp.Popen", "subprocess.Popen"):
            return ("popen",)
        if d == "tempfile.NamedTemporaryFile":
            return ("mktemp",)
        if d == "os.unlink":
            return ("unlink",)
        if isinstance(f, ast.Attribute):
            if f.attr == "format" and not node.args and len(node.keywords) == 1 and node.keywords[0].arg is None:
                return ("format",)
            if isinstance(f.value, ast.Name) and f.value.id in env:
                t = env[f.value.id].type
                if t == VCSAPI and f.attr == "get_remote":
                    return ("getremote",)
                if t == TMPFILE and f.attr == "write":
                    return ("tmpwrite",)
                if t == PROC and f.attr == "wait":
                    return ("wait",)
                if t == VCSAPI:
                    self.bad(node, "method `%s` of VCSAPI is not modelled at the argv level" % f.attr)
            if isinstance(f.value, ast.Name) and f.value.id not in env and (f.value.id, f.attr) in K_MODFUNCS:
                return ("kfunc", K_MODFUNCS[(f.value.id, f.attr)])
        return None

    @staticmethod
    def is_absolute(node):
        """`pl.Path(x).absolute()`"""
        return (isinstance(node, ast.Call) and isinstance(node.func, ast.Attribute) and node.func.attr == "absolute"
                and not node.args and not node.keywords and isinstance(node.func.value, ast.Call)
                and ast.unparse(node.func.value.func) in ("pl.Path", "pathlib.Path")
                and len(node.func.value.args) == 1 and not node.func.value.keywords)

    def is_pipe(self, node):
        return self.dotted(node) in ("sp.PIPE", "subprocess.PIPE")

    def str_arg(self, node, env, what):
        v, t = self.expr(node, env)
        if t != STR:
            self.bad(node, "%s of type %r (str expected; Optional needs narrowing)" % (what, t))
        return v

    def mk_effect(self, node, env):
        kind = self.effect_kind(node, env)
        k = kind[0]
        if k == "environ":
            return "Eff.environ", ENVMAP
        if k == "returncode":
            v, _ = self.expr(node.value, env)
            return "(Eff.returncode %s)" % v, OPT(INT)
        if k == "dictget":
            d_, td = self.expr(node.args[0], env)
            k_, tk = self.expr(node.args[1], env)
            if td[0] != "dict" or tk != td[1]:
                self.bad(node, "subscript `[%s]` on a value of type %r" % (self.dotted(node.args[1]), td))
            return "(Eff.dictGet %s %s)" % (d_, k_), td[2]
        if k == "format":
            recv = self.str_arg(node.func.value, env, "the receiver of `.format`")
            kw, tkw = self.expr(node.keywords[0].value, env)
            if tkw != ENVMAP:
                self.bad(node, "`.format(**d)` needs a Dict[str, str], got %r" % (tkw,))
            return "(Eff.format %s %s)" % (recv, kw), STR
        if k == "shlex":
            if len(node.args) != 1 or node.keywords:
                self.bad(node, "shlex.split(s)")
            return "(Eff.shlexSplit %s)" % self.str_arg(node.args[0], env, "the argument of shlex.split"), LIST(STR)
        if k == "resub":
            if len(node.args) != 3:
                self.bad(node, "re.sub(pattern, repl, string) with three positional arguments")
            for kw in node.keywords:
                if not (kw.arg in ("count", "flags") and isinstance(kw.value, ast.Constant) and kw.value.value == 0
                        and not isinstance(kw.value.value, bool)):
                    self.bad(node, "re.sub keyword `%s` (only count=0 / flags=0)" % kw.arg)
            vals = [self.str_arg(a, env, "re.sub argument") for a in node.args]
            return "(Eff.reSub %s %s %s)" % tuple(vals), STR
        if k == "checkoutput":
            if len(node.args) != 1:
                self.bad(node, "sp.check_output(argv, env=..., stderr=sp.PIPE)")
            argv, ta = self.expr(node.args[0], env)
            if ta != LIST(STR):
                self.bad(node, "sp.check_output on a command of type %r (a list of str expected; a string would need a shell)" % (ta,))
            envv, piped = "none", "false"
            for kw in node.keywords:
                if kw.arg == "env":
                    e_, te = self.expr(kw.value, env)
                    envv = self.env_opt(e_, te, node)
                elif kw.arg == "stderr" and self.is_pipe(kw.value):
                    piped = "true"
                else:
                    self.bad(node, "sp.check_output keyword `%s`" % kw.arg)
            return "(Eff.checkOutput %s %s %s)" % (argv, envv, piped), BYTES
        if k == "popen":
            if len(node.args) != 1:
                self.bad(node, "sp.Popen(cmd, env=..., stdout=sp.PIPE, stderr=sp.PIPE)")
            cmd = self.str_arg(node.args[0], env, "the command of sp.Popen")
            envv = "none"
            for kw in node.keywords:
                if kw.arg == "env":
                    e_, te = self.expr(kw.value, env)
                    envv = self.env_opt(e_, te, node)
                elif kw.arg in ("stdout", "stderr") and self.is_pipe(kw.value):
                    pass                                   # where the script's output goes: only logged
                else:
                    self.bad(node, "sp.Popen keyword `%s`" % kw.arg)
            return "(Eff.popen %s %s)" % (cmd, envv), PROC
        if k == "absolute":
            inner = node.args[0].func.value.args[0]
            return "(Eff.absolute %s)" % self.str_arg(inner, env, "the path"), STR
        if k == "mktemp":
            ok = (len(node.args) == 1 and isinstance(node.args[0], ast.Constant) and node.args[0].value == "wb"
                  and len(node.keywords) == 1 and node.keywords[0].arg == "delete"
                  and isinstance(node.keywords[0].value, ast.Constant) and node.keywords[0].value.value is False)
            if not ok:
                self.bad(node, "only `tempfile.NamedTemporaryFile(\"wb\", delete=False)` is modelled")
            return "Eff.mkTemp", TMPFILE
        if k == "tmpwrite":
            if len(node.args) != 1 or node.keywords:
                self.bad(node, "fobj.write(data)")
            f_, _ = self.expr(node.func.value, env)
            d_, td = self.expr(node.args[0], env)
            if td != BYTES:
                self.bad(node, "a file opened in binary mode is written with a value of type %r (TypeError)" % (td,))
            return "(Eff.tmpWrite %s %s)" % (f_, d_), UNIT
        if k == "unlink":
            if len(node.args) != 1 or node.keywords:
                self.bad(node, "os.unlink(path)")
            return "(Eff.unlink %s)" % self.str_arg(node.args[0], env, "the path"), UNIT
        if k == "wait":
            if node.args or node.keywords:
                self.bad(node, "proc.wait() without arguments")
            p_, _ = self.expr(node.func.value, env)
            return "(Eff.wait %s)" % p_, UNIT
        if k == "getremote":
            if node.args or node.keywords:
                self.bad(node, "get_remote()")
            r_, _ = self.expr(node.func.value, env)
            return "(Eff.getRemote %s)" % r_, OPT(STR)
        if k == "call":
            # self(<cmd name>, env=..., **template arguments)  =  the translated VCSAPI.__call__
            spec = K_BY_NAME["argvCall"]
            self.need(spec)
            if len(node.args) != 1:
                self.bad(node, "`self(name, **kwargs)` takes one positional argument")
            recv, _ = self.expr(node.func, env)
            name = self.str_arg(node.args[0], env, "the subcommand name")
            envv = "none"
            kws = []
            for kw in node.keywords:
                if kw.arg is None:
                    self.bad(node, "`**kwargs` in a VCS invocation")
                if kw.arg == "env":
                    e_, te = self.expr(kw.value, env)
                    envv = self.env_opt(e_, te, node)
                    continue
                v = self.str_arg(kw.value, env, "template argument `%s`" % kw.arg)
                kws.append("(%s, %s)" % (lean_chars(kw.arg), v))
            return "(argvCall %s %s %s [%s])" % (recv, name, envv, ", ".join(kws)), STR
        if k == "kfunc":
            spec = kind[1]
            self.need(spec)
            names = [p for p, _ in spec["params"]]
            if node.keywords or len(node.args) != len(names):
                self.bad(node, "call of %s with other than its %d positional arguments" % (spec["func"], len(names)))
            args = []
            for a, (p, t) in zip(node.args, spec["params"]):
                v, vt = self.expr(a, env)
                args.append(self.coerce(v, vt, t, node))
            return "(%s%s)" % (spec["name"], "".join(" " + a for a in args)), spec["ret"]
        if k == "excstderr":
            v, _ = self.expr(node.value, env)
            return "(Eff.excStderr %s)" % v, OPT(BYTES)           # bytes or None
        if k == "exit":
            return TE.EffTranslator.mk_effect(self, node, env)
        raise AssertionError(kind)

    def env_opt(self, lean, t, node):
        if t == ENVMAP:
            return "(some %s)" % lean
        if t == OPT(ENVMAP):
            return lean
        if t == NONE:
            return "none"
        self.bad(node, "`env=` of type %r" % (t,))

    # ---------------------------------------------------------------- hoisting: comprehensions whose element can raise
    def hoist(self, node, env):
        if isinstance(node, ast.ListComp) and len(node.generators) == 1:
            g = node.generators[0]
            if isinstance(g.target, ast.Name) and not g.ifs and not g.is_async:
                env_x = dict(env)
                env_x[g.target.id] = Var(lean_ident(g.target.id), STR)      # provisional, for the effect test
                if self.has_effect(node.elt, env_x):
                    binds, it2, env2 = TE.EffTranslator.hoist(self, g.iter, env)
                    xs, t = self.expr(it2, env2)
                    if t[0] != "list" or t[1] is None:
                        self.bad(node, "comprehension over a value of type %r" % (t,))
                    x = lean_ident(g.target.id)
                    env_in = dict(env2)
                    env_in[g.target.id] = Var(x, t[1])
                    b_e, elt2, env_e = self.hoist(node.elt, env_in)
                    v, vt = self.expr(elt2, env_e)
                    if vt == LIT:
                        vt = INT
                    body = wrap_binds(b_e, "Eff.pure %s" % v)
                    name = self.fresh("t")
                    binds.append(Bind(name, "(Eff.mapM (fun %s =>\n%s) %s)" % (x, indent(body, 2), xs), LIST(vt)))
                    env3 = dict(env2)
                    env3[name] = Var(name, LIST(vt))
                    nn = ast.copy_location(ast.Name(id=name, ctx=ast.Load()), node)
                    return binds, nn, env3
        return TE.EffTranslator.hoist(self, node, env)

    # ---------------------------------------------------------------- expressions (additions)
    def expr(self, node, env):
        if isinstance(node, ast.Constant) and isinstance(node.value, bytes):
            if any(b >= 128 for b in node.value):
                self.bad(node, "non-ASCII bytes literal")
            return lean_chars(node.value.decode("ascii")), BYTES
        if isinstance(node, ast.BoolOp) and isinstance(node.op, ast.Or) and len(node.values) == 2:
            # `x or default` as a VALUE on (Optional) byte strings: x when it is truthy, else the default
            a, ta = self.expr(node.values[0], env)
            if ta in (BYTES, OPT(BYTES)):
                b, tb = self.expr(node.values[1], env)
                if tb != BYTES:
                    self.bad(node, "`x or y` with x a byte string needs a byte string y (got %r)" % (tb,))
                if ta == BYTES:
                    return "(if (!%s.isEmpty) then %s else %s)" % (a, a, b), BYTES
                v = self.fresh("v")
                return "(match %s with\n  | none => %s\n  | some %s => (if (!%s.isEmpty) then %s else %s))" % (
                    a, b, v, v, v, b), BYTES
        if isinstance(node, ast.Name) and node.id == "VCS_SUBCOMMANDS_BY_NAME" and node.id not in env:
            self.k_need_import("BumpverVerif.Gen.VcsTemplates")
            return "Gen.vcsTemplates", TABLES2
        if isinstance(node, ast.Dict):
            items = []
            for kx, vx in zip(node.keys, node.values):
                if not (isinstance(kx, ast.Constant) and isinstance(kx.value, str)):
                    self.bad(node, "a dict display needs string-literal keys")
                items.append("(%s, %s)" % (lean_chars(kx.value), self.str_arg(vx, env, "the value of key %r" % kx.value)))
            return "(dictUpdate [] [%s])" % ", ".join(items), ENVMAP
        if isinstance(node, ast.Attribute) and isinstance(node.value, ast.Name) and node.value.id in env:
            t = env[node.value.id].type
            if t == TMPFILE and node.attr == "name":
                return "%s.name" % env[node.value.id].lean, STR
        return TE.EffTranslator.expr(self, node, env)

    def k_need_import(self, mod):
        if mod not in self.k_imports:
            self.k_imports.append(mod)

    def call(self, node, env):
        f = node.func
        fname = self.dotted(f)
        if fname in PURE_MODEL_CALLS and not self.shadowed(f, env):
            lean, pts, rt, mod = PURE_MODEL_CALLS[fname]
            if node.keywords or len(node.args) != len(pts):
                self.bad(node, "call of %s" % fname)
            args = []
            for a, pt in zip(node.args, pts):
                v, t = self.expr(a, env)
                args.append(self.coerce(v, t, pt, node))
            self.k_need_import(mod)
            return "(%s %s)" % (lean, " ".join(args)), rt
        if fname == "dict" and "dict" not in env and len(node.args) <= 1:
            # dict(base, k1=v1, ...): a copy of `base` with the keyword items set in order
            if node.args:
                base, tb = self.expr(node.args[0], env)
                if tb != ENVMAP:
                    self.bad(node, "dict(base, ...) with a base of type %r" % (tb,))
            else:
                base = "[]"
            items = []
            for kw in node.keywords:
                if kw.arg is None:
                    self.bad(node, "dict(**d)")
                items.append("(%s, %s)" % (lean_chars(kw.arg), self.str_arg(kw.value, env, "the value of `%s`" % kw.arg)))
            if not items:
                return base, ENVMAP
            return "(dictUpdate %s [%s])" % (base, ", ".join(items)), ENVMAP
        if isinstance(f, ast.Attribute):
            m = f.attr
            if m in ("encode", "decode", "copy"):
                recv, tr = self.expr(f.value, env)
                if m == "copy" and tr[0] == "dict" and not node.args and not node.keywords:
                    return recv, tr                       # a copy of an immutable value
                codec_ok = (len(node.args) == 1 and not node.keywords and isinstance(node.args[0], ast.Constant)
                            and isinstance(node.args[0].value, str) and node.args[0].value.lower().replace("_", "-") in ("utf-8", "utf8"))
                if m == "encode" and tr == STR:
                    if not codec_ok:
                        self.bad(node, "only `.encode(\"utf-8\")` is modelled")
                    return "(utf8Encode %s)" % recv, BYTES
                if m == "decode" and tr == BYTES:
                    if not codec_ok:
                        self.bad(node, "only `.decode(\"utf-8\")` is modelled")
                    return "(utf8Decode %s)" % recv, STR
                self.bad(node, "method `%s` on a value of type %r" % (m, tr))
        return TE.EffTranslator.call(self, node, env)

    def compare1(self, op, ln, rn, env, node):
        # `proc.returncode != 0`: an Optional[int] against an int (None is different from every int)
        if isinstance(op, (ast.Eq, ast.NotEq, ast.Lt, ast.LtE, ast.Gt, ast.GtE)):
            a, ta = self.expr(ln, env)
            b, tb = self.expr(rn, env)
            if ta == OPT(INT) and TF.is_intlike(tb):
                if isinstance(op, ast.Eq):
                    return "(%s == some %s)" % (a, self.coerce(b, tb, INT, node))
                if isinstance(op, ast.NotEq):
                    return "(%s != some %s)" % (a, self.coerce(b, tb, INT, node))
                self.bad(node, "ordering comparison of an Optional[int] (TypeError when it is None)")
        if isinstance(op, (ast.In, ast.NotIn)):
            a, ta = self.expr(ln, env)
            b, tb = self.expr(rn, env)
            if ta == BYTES and tb == BYTES:
                return "(%sisInfix %s %s)" % ("!" if isinstance(op, ast.NotIn) else "", a, b)
            if BYTES in (ta, tb):
                self.bad(node, "`in` on %r and %r (TypeError: str and bytes do not mix)" % (ta, tb))
        return TE.EffTranslator.compare1(self, op, ln, rn, env, node)

    # ---------------------------------------------------------------- statements (additions)
    def block(self, stmts, env, k):
        if stmts:
            st, rest = stmts[0], stmts[1:]
            # d[k] = v on a dict variable: the variable is rebound
            if (isinstance(st, ast.Assign) and len(st.targets) == 1 and isinstance(st.targets[0], ast.Subscript)
                    and isinstance(st.targets[0].value, ast.Name) and st.targets[0].value.id in env
                    and env[st.targets[0].value.id].type[0] == "dict"):
                dname = st.targets[0].value.id
                d = env[dname]
                if self.has_effect(st.value, env) or self.has_effect(st.targets[0].slice, env):
                    self.bad(st, "an effect inside `d[k] = v`")
                k_, tk = self.expr(st.targets[0].slice, env)
                v_, tv = self.expr(st.value, env)
                if tk != d.type[1] or tv != d.type[2]:
                    self.bad(st, "`%s[...] = ...` with key %r / value %r on %r" % (dname, tk, tv, d.type))
                ln = lean_ident(dname)
                env2 = dict(env)
                env2[dname] = Var(ln, d.type)
                return "let %s := (dictSet %s %s %s);\n%s" % (ln, k_, v_, d.lean, self.block(rest, env2, k))
            # xs = []  (element type not known yet): no `let` — Lean could not type it; the literal is used where xs is
            if isinstance(st, (ast.Assign, ast.AnnAssign)) and isinstance(st.value, ast.List) and not st.value.elts:
                tgt = st.targets[0] if isinstance(st, ast.Assign) else st.target
                if isinstance(tgt, ast.Name) and (isinstance(st, ast.AnnAssign) or len(st.targets) == 1):
                    env2 = dict(env)
                    env2[tgt.id] = Var("[]", LIST(None))
                    return self.block(rest, env2, k)
            # x = A if c else B with an effect in a branch  ==  if c: x = A  else: x = B
            if isinstance(st, (ast.Assign, ast.AnnAssign)) and isinstance(st.value, ast.IfExp) \
                    and (self.has_effect(st.value.body, env) or self.has_effect(st.value.orelse, env)):
                tgt = st.targets[0] if isinstance(st, ast.Assign) else st.target
                if isinstance(tgt, ast.Name) and (isinstance(st, ast.AnnAssign) or len(st.targets) == 1):
                    def mk(v):
                        return ast.copy_location(ast.Assign(targets=[ast.Name(id=tgt.id, ctx=ast.Store())], value=v), st)
                    new = ast.copy_location(ast.If(test=st.value.test, body=[mk(st.value.body)], orelse=[mk(st.value.orelse)]), st)
                    ast.fix_missing_locations(new)
                    return self.block([new] + list(rest), env, k)
            # with tmp_file as fobj: ...   (the file is closed when the block is left, whatever happened)
            if isinstance(st, ast.With) and len(st.items) == 1 and isinstance(st.items[0].context_expr, ast.Name) \
                    and st.items[0].context_expr.id in env and env[st.items[0].context_expr.id].type == TMPFILE:
                it = st.items[0]
                f = env[it.context_expr.id]
                env_in = dict(env)
                if it.optional_vars is not None:
                    if not isinstance(it.optional_vars, ast.Name):
                        self.bad(st, "`with ... as <pattern>`")
                    env_in[it.optional_vars.id] = Var(f.lean, TMPFILE)
                for s in st.body:
                    for n in ast.walk(s):
                        if isinstance(n, (ast.Return, ast.Continue, ast.Break)):
                            self.bad(st, "return / continue inside `with <temporary file>`")
                        if isinstance(n, ast.Name) and isinstance(n.ctx, ast.Store):
                            self.bad(st, "an assignment inside `with <temporary file>`")
                body = self.block(list(st.body), env_in, lambda e: "Eff.pure ()")
                return "Eff.bind (Eff.tryFinally\n%s\n%s) (fun _ =>\n%s)" % (
                    indent("(" + body + ")", 2), indent("(Eff.tmpClose %s)" % f.lean, 2), self.block(rest, env, k))
        return TE.EffTranslator.block(self, stmts, env, k)

    def for_stmt(self, st, rest, env, k):
        """`for x in xs: acc.append(e)` with `e` able to raise  ==  `acc = acc + [e for x in xs]`  (Eff.mapM)"""
        if not st.orelse and isinstance(st.target, ast.Name):
            env_probe = dict(env)
            env_probe[st.target.id] = Var(lean_ident(st.target.id), STR)
            live = [b for b in st.body if not self.is_noop(b, env_probe)]
            if len(live) == 1 and isinstance(live[0], ast.Expr) and isinstance(live[0].value, ast.Call):
                c = live[0].value
                if (isinstance(c.func, ast.Attribute) and c.func.attr == "append" and isinstance(c.func.value, ast.Name)
                        and len(c.args) == 1 and not c.keywords and c.func.value.id in env
                        and env[c.func.value.id].type[0] == "list" and c.func.value.id != st.target.id
                        and self.has_effect(c.args[0], env_probe)):
                    acc = c.func.value.id
                    if any(isinstance(n, ast.Name) and n.id == acc for n in ast.walk(c.args[0])):
                        self.bad(st, "the appended element reads the list it is appended to")
                    comp = ast.ListComp(elt=c.args[0], generators=[ast.comprehension(target=st.target, iter=st.iter, ifs=[], is_async=0)])
                    ast.copy_location(comp, st)
                    ast.fix_missing_locations(comp)
                    binds, node2, env2 = self.hoist(comp, env)
                    v, t = self.expr(node2, env2)
                    a = env[acc]
                    if a.type[1] is not None and a.type != t:
                        self.bad(st, "append of %r elements to a list of %r" % (t[1], a.type[1]))
                    ln = lean_ident(acc)
                    env3 = dict(env2)
                    env3[acc] = Var(ln, t)
                    # an accumulator that is still the empty list literal: the result IS the mapped list
                    new = v if a.lean.replace(" ", "") in ("[]", "([]:List_)") or a.type[1] is None else "(%s ++ %s)" % (a.lean, v)
                    return wrap_binds(binds, "let %s := %s;\n%s" % (ln, new, self.block(rest, env3, k)))
        return TE.EffTranslator.for_stmt(self, st, rest, env, k)

    def block_has_effect(self, stmts, env):
        for s in stmts:
            if self.is_noop(s, env):
                continue
            for n in ast.walk(s):
                if isinstance(n, (ast.Call, ast.Attribute)):
                    try:
                        if self.effect_kind(n, env) is not None:
                            return True
                    except Untranslatable:
                        return True
                if isinstance(n, (ast.Raise, ast.Try, ast.With)):
                    return True
                # calls on variables introduced inside the block are classified by name only
                if isinstance(n, ast.Call) and isinstance(n.func, ast.Attribute) and n.func.attr in ("write", "wait", "format", "get_remote"):
                    return True
                if isinstance(n, ast.Attribute) and n.attr == "returncode":
                    return True
        return False

    # ---------------------------------------------------------------- the whole function
    def find_def(self):
        return TE.find_function(self.src, self.spec, self.fn)

    def rewrite_subscripts(self, stmts):
        """`d[k]` in Load context with a non-integer subscript  ->  the synthetic call __dictget__(d, k)"""
        class RW(ast.NodeTransformer):
            def visit_Subscript(self, n):
                self.generic_visit(n)
                if isinstance(n.ctx, ast.Load) and not (isinstance(n.slice, ast.Constant) and isinstance(n.slice.value, int)) \
                        and not isinstance(n.slice, ast.Slice):
                    c = ast.Call(func=ast.Name(id=DICTGET, ctx=ast.Load()), args=[n.value, n.slice], keywords=[])
                    return ast.copy_location(c, n)
                return n
        out = [RW().visit(copy.deepcopy(s)) for s in stmts]
        for s in out:
            ast.fix_missing_locations(s)
        return out

    def rename_handler_vars(self, stmts):
        """`except E as err:` -> `except E as err__exc:` (and the uses inside the handler): the exception variable
        is a fresh binding, whatever else is called `err` in the function"""
        class RN(ast.NodeTransformer):
            def __init__(self, old, new):
                self.old, self.new = old, new

            def visit_Name(self, n):
                if n.id == self.old:
                    return ast.copy_location(ast.Name(id=self.new, ctx=n.ctx), n)
                return n

        class RW(ast.NodeTransformer):
            def visit_ExceptHandler(self, h):
                self.generic_visit(h)
                if h.name:
                    new = h.name + "__exc"
                    h.body = [RN(h.name, new).visit(s) for s in h.body]
                    h.name = new
                return h
        out = [RW().visit(copy.deepcopy(s)) for s in stmts]
        for s in out:
            ast.fix_missing_locations(s)
        return out

    def slice_of(self, node):
        """the backward data-flow slice of the designated arguments of the designated call (top-level
        statements of the function body) -> (statements, [argument expressions])"""
        sl = self.spec["slice"]
        body = list(node.body)
        hits = [i for i, s in enumerate(body) if isinstance(s, ast.Expr) and isinstance(s.value, ast.Call)
                and self.dotted(s.value.func) == sl["call"]]
        if len(hits) != 1:
            self.bad(node, "the call `%s(...)` occurs %d times at the top level of %s" % (sl["call"], len(hits), self.fn))
        at = hits[0]
        call = body[at].value
        args = []
        # the designated arguments, by position or by the parameter name of the callee
        cal_spec = dict(file=self.spec["file"], func=sl["call"])
        callee = TE.find_function(self.src, cal_spec, self.fn)
        pnames = [a.arg for a in callee.args.args]
        for i, pn in zip(sl["args"], sl["argnames"]):
            if i >= len(pnames) or pnames[i] != pn:
                self.bad(callee, "parameter %d of %s is not `%s`" % (i, sl["call"], pn))
            if i < len(call.args):
                if any(isinstance(a, ast.Starred) for a in call.args[:i + 1]):
                    self.bad(call, "starred arguments")
                args.append(call.args[i])
            else:
                kws = [kw.value for kw in call.keywords if kw.arg == pn]
                if len(kws) != 1:
                    self.bad(call, "argument `%s` of %s not found" % (pn, sl["call"]))
                args.append(kws[0])
        inputs = {p for p, _ in self.spec["params"]}
        needed = set()
        for a in args:
            needed |= {n.id for n in ast.walk(a) if isinstance(n, ast.Name)}

        def stores(s):
            return {n.id for n in ast.walk(s) if isinstance(n, ast.Name) and isinstance(n.ctx, ast.Store)}

        def loads(s):
            return {n.id for n in ast.walk(s) if isinstance(n, ast.Name) and isinstance(n.ctx, ast.Load)}
        chosen = []
        first = at
        for i in range(at - 1, -1, -1):
            s = body[i]
            st_ = stores(s)
            if st_ & (needed - inputs):
                chosen.append(i)
                needed |= loads(s)
                first = i
        # inside the region, a statement that re-assigns an input or a needed variable belongs to the slice
        for i in range(first, at):
            if i not in chosen and stores(body[i]) & (needed | inputs):
                chosen.append(i)
        chosen.sort()
        if not chosen:
            self.bad(node, "the slice is empty")
        return [body[i] for i in chosen], args

    def translate(self):
        spec = self.spec
        node = self.find_def()
        src, _ = self.src.module(spec["file"])
        a = node.args
        if spec.get("slice"):
            stmts, rets = self.slice_of(node)
            self.source_text = "\n".join(ast.get_source_segment(src, s) for s in stmts) + "\n" + \
                               "\n".join(ast.get_source_segment(src, r) for r in rets)
            tup = ast.Return(value=ast.Tuple(elts=list(rets), ctx=ast.Load()))
            body_stmts = list(stmts) + [ast.copy_location(tup, stmts[-1])]
            ast.fix_missing_locations(body_stmts[-1])
        else:
            self.source_text = ast.get_source_segment(src, node)
            if a.vararg or a.kwonlyargs or a.posonlyargs:
                self.bad(node, "only plain positional parameters (and the declared **kwargs)")
            pynames = [x.arg for x in a.args]
            if pynames != [p for p, _ in spec["params"]]:
                self.bad(node, "parameters are %s, the signature table expects %s" % (pynames, [p for p, _ in spec["params"]]))
            kwn = a.kwarg.arg if a.kwarg else None
            if kwn != (spec["kwarg"][0] if spec.get("kwarg") else None):
                self.bad(node, "**%s, the signature table expects %s" % (kwn, spec.get("kwarg")))
            for d in a.defaults:
                if not (isinstance(d, ast.Constant) and (d.value is None or isinstance(d.value, bool))):
                    self.bad(node, "only `= None` / bool parameter defaults")
            decos = [self.dotted(d) for d in node.decorator_list]
            if decos:
                self.bad(node, "decorators are %s" % decos)
            body_stmts = list(node.body)
        env = {}
        params = []
        for p, t in spec["params"]:
            if t is None:
                continue                       # `self` of a constructor
            if t[0] == "rec":
                self.record(t[1])
            env[p] = Var(lean_ident(p), t)
            params.append("(%s : %s)" % (lean_ident(p), self.lean_type(t)))
        if spec.get("kwarg"):
            p, t = spec["kwarg"]
            env[p] = Var(lean_ident(p), t)
            params.append("(%s : %s)" % (lean_ident(p), self.lean_type(t)))
        if spec["ret"][0] == "rec":
            self.record(spec["ret"][1])
        rt = self.lean_type(spec["ret"])
        self.ret_stack = [lambda v: "Eff.pure %s" % v]
        fields = None
        if spec.get("ctor"):
            # `self.F = e`  ->  assignment to the local `self__F`; the function returns the record of them
            fields = [f for f, _, _ in self.record(spec["ret"][1])["fields"]]

            class RW(ast.NodeTransformer):
                def visit_Attribute(self_, n):
                    self_.generic_visit(n)
                    if isinstance(n.value, ast.Name) and n.value.id == "self":
                        if n.attr not in fields:
                            raise Untranslatable(self.fn, n, "attribute `self.%s` is not a modelled field" % n.attr)
                        return ast.copy_location(ast.Name(id="self__" + n.attr, ctx=n.ctx), n)
                    return n
            body_stmts = [RW().visit(copy.deepcopy(s)) for s in body_stmts]
            for s in body_stmts:
                ast.fix_missing_locations(s)
                for n in ast.walk(s):
                    if isinstance(n, ast.Name) and n.id == "self":
                        self.bad(n, "`self` used other than as `self.<field>` in a constructor")
                    if isinstance(n, ast.Return):
                        self.bad(n, "`return` in a constructor")
        body_stmts = self.rewrite_subscripts(body_stmts)
        body_stmts = self.rename_handler_vars(body_stmts)

        def fall_off(e):
            if fields is not None:
                rec = self.record(spec["ret"][1])
                items = []
                for f, path, ft in rec["fields"]:
                    v = e.get("self__" + f)
                    if v is None:
                        self.bad(node, "the constructor does not set `self.%s` on every path" % f)
                    items.append("%s := %s" % (path, self.coerce(v.lean, v.type, ft, node)))
                return "Eff.pure ({ %s } : %s)" % (", ".join(items), rec["lean"])
            if spec["ret"] == UNIT:
                return "Eff.pure ()"
            if spec["ret"][0] == "opt":
                return "Eff.pure none"
            self.bad(node, "the function can fall off its end but is declared to return %r" % (spec["ret"],))
        body = self.block(body_stmts, env, fall_off)
        head = "def %s %s%s : Eff %s :=" % (spec["name"], "{α : Type} " if spec.get("generic") else "",
                                           " ".join(params), rt if " " not in rt or rt.startswith("(") else "(" + rt + ")")
        return head + "\n" + indent(body, 2) + "\n"


# ----------------------------------------------------------------------------------
# file generation
# ----------------------------------------------------------------------------------
HEADER = "/- GENERATED by harness/translate_argv.py from the Python AST. Do not edit."


def render_types(sources):
    """Gen/F_argvTypes.lean: the Config structure and the TagScope enum, generated from their class definitions"""
    spec = dict(name="argvTypes", file="config.py", func="<types>", params=[], ret=UNIT)
    tr = ArgvTranslator(spec, sources)
    saved = TF.lean_str
    TF.lean_str = lean_chars
    try:
        enum_decl = tr.decl("enum", "TagScope")
        rec_decl = tr.decl("rec", "Config")
        csrc, _ = sources.module("config.py")
        _, cnode = sources.find("config.py", ast.ClassDef, "Config")
        _, enode = sources.find("config.py", ast.ClassDef, "TagScope")
        h = sha256(ast.get_source_segment(csrc, cnode) + ast.get_source_segment(csrc, enode))
    except Untranslatable as ex:
        return TYPES_FILE, "\n".join([HEADER, "   UNTRANSLATABLE: %s -/" % str(ex).replace("-/", "- /"), ""]), ex
    except Exception as ex:
        return TYPES_FILE, "\n".join([HEADER, "   UNTRANSLATABLE: %s: %s -/" % (type(ex).__name__, str(ex).replace("-/", "- /")), ""]), ex
    finally:
        TF.lean_str = saved
    lines = [HEADER,
             "   source   : src/bumpver/config.py (Config, TagScope)",
             "   sha256   : %s -/" % h,
             "import %s" % MODEL_MODULE,
             "set_option linter.unusedVariables false",
             "namespace %s" % GEN_NS, "",
             enum_decl, rec_decl,
             "end %s" % GEN_NS, ""]
    return TYPES_FILE, "\n".join(lines), None


def pyname_of(spec):
    n = (spec["cls"] + "." if spec.get("cls") else "") + spec["func"]
    if spec.get("slice"):
        n += " (message part)"
    return n


def render(spec, sources):
    fname = "F_%s.lean" % spec["name"]
    tr = ArgvTranslator(spec, sources)
    where = "src/bumpver/%s" % spec["file"]
    pyname = pyname_of(spec)
    try:
        body = tr.translate()
    except Untranslatable as ex:
        text = getattr(tr, "source_text", None)
        lines = [HEADER, "   source   : %s" % where, "   function : %s" % pyname,
                 "   sha256   : %s" % (sha256(text) if text else "(function not found)"), "",
                 "   UNTRANSLATABLE: %s" % str(ex).replace("-/", "- /"),
                 "   (no definition is generated; the ties that use %s.%s cannot compile until this is resolved) -/"
                 % (GEN_NS, spec["name"]), ""]
        return fname, "\n".join(lines), ex
    except Exception as ex:   # unreadable / unparsable source or an internal error: never a silent success
        lines = [HEADER, "   source   : %s" % where, "   function : %s" % pyname, "",
                 "   UNTRANSLATABLE: the source could not be read/parsed/translated: %s: %s -/"
                 % (type(ex).__name__, str(ex).replace("-/", "- /")), ""]
        return fname, "\n".join(lines), ex
    what = "of the function's source text" if not spec.get("slice") else "of the sliced statements and the two argument expressions"
    lines = [HEADER, "   source   : %s" % where, "   function : %s" % pyname,
             "   sha256   : %s  (%s) -/" % (sha256(tr.source_text), what),
             "import %s" % TYPES_MODULE]
    for m in list(spec.get("imports", [])) + [m for m in tr.k_imports if m not in spec.get("imports", [])]:
        lines.append("import %s" % m)
    for d in tr.deps:
        lines.append("import BumpverVerif.Gen.F_%s" % d)
    lines += ["set_option linter.unusedVariables false", "namespace %s" % GEN_NS, ""]
    for a in tr.aux_defs:
        lines.append(a)
    lines.append("/-- `%s.%s` -/" % (spec["file"][:-3], pyname))
    lines.append(body)
    lines.append("end %s" % GEN_NS)
    lines.append("")
    return fname, "\n".join(lines), None


def generate(report=None, only=None):
    """{filename: content} for lean/BumpverVerif/Gen/ ; `report` collects (python name, file, error)"""
    sources = TF.Sources()
    out = {}
    fname, content, err = render_types(sources)
    out[fname] = content
    if report is not None:
        report.append(("config.Config/TagScope (argv)", fname, err))
    for spec in KFUNCS:
        if only and spec["name"] not in only:
            continue
        fname, content, err = render(spec, sources)
        out[fname] = content
        if report is not None:
            report.append((pyname_of(spec), fname, err))
    return out


def main():
    rep = []
    files = generate(rep)
    gen = os.path.join(os.path.dirname(HERE), "lean", "BumpverVerif", "Gen")
    if "--write" in sys.argv:
        for name, content in files.items():
            path = os.path.join(gen, name)
            old = open(path, encoding="utf-8").read() if os.path.exists(path) else None
            if old != content:
                with open(path, "w", encoding="utf-8") as f:
                    f.write(content)
                print("wrote", name)
    for func, fname, err in rep:
        print("%-34s %-30s %s" % (func, fname, "ok" if err is None else "UNTRANSLATABLE: %s" % err))
    if "--show" in sys.argv:
        for name, content in files.items():
            print("=" * 20, name)
            print(content)
    return 0


if __name__ == "__main__":
    sys.exit(main())
