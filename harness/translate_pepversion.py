#!/venv/bin/python
"""Python -> Lean translator for the PEP 440 version classes of `setuptools_v65_version.py`
(`Version.__init__`, its properties, `__str__`, `_parse_local_version`, `parse`, `LegacyVersion`,
`_legacy_cmpkey`, `_parse_version_parts`) and their two callers `version.parse_version` /
`version.to_pep440` (an extension of harness/translate_cli.py; documented in
harness/TRANSLATE_PEPVERSION.md).

`PepTranslator` subclasses `translate_cli.CliTranslator` and adds what this code needs:

  * METHODS of classes (`self` is a record of the attributes `__init__` sets; `__init__` is translated as
    the function that returns that record), properties (`self.epoch` is a call of the translated
    property), constructor calls `Version(s)` / `LegacyVersion(s)`, `str(obj)` = the translated `__str__`;
  * the regex match as an INPUT: `self._regex.search(version)` is the ambient parameter
    `regex_search : Str → Option PepGroups`, `match.group("name")` is a field of the record;
  * narrowing on pure PATH expressions (`match.group("epoch")`, `self.pre`, `self._version.local`)
    exactly like on variables;
  * `a or b` on optional strings, f-strings with int pieces, generators over a tuple VALUE
    (`str(x) for x in self.pre`), `int | str` values built by a conditional expression, `s.split(".")`,
    `REGEX.split(s)` for a module-level character-class regex, module-level `dict` literals with
    `.get(k, default)`, `s.startswith(lit)`, `s.zfill(n)`, `s[:n]`, generators (`yield`),
    `while xs and xs[-1] == c: xs.pop()`;
  * the exception `InvalidVersion` (`Except PepExc T`).

Generated files: lean/BumpverVerif/Gen/F_pep<Name>.lean, namespace BV.GenQ.  Nothing is imported from
bumpver, only its source text is read ($VERIF_REPO/src/bumpver, default /repo).
"""
import ast
import os
import re
import sys

HERE = os.path.dirname(os.path.abspath(__file__))
sys.path.insert(0, HERE)

import translate_funcs as TF                                     # noqa: E402
import translate_cli as TC                                       # noqa: E402
from translate_funcs import (                                     # noqa: E402
    BOOL, INT, NAT, LIT, STR, NONE, OPT, LIST, TUP, REC,
    Untranslatable, Var, lean_ident, lean_str, indent, _nl, _arm, sha256,
)
from translate_cli import EXT, LOCSEG, UNIT, NEGINF, INF          # noqa: E402

PYVER = ("pyver",)          # an object of class Version or LegacyVersion (model: PyVersion)
FILE = "setuptools_v65_version.py"
EXC_TYPE = "PepExc"
NAMESPACE = "BV.GenQ"
MODEL_IMPORT = "BumpverVerif.Model.PepGroups"

RAWKEY = TUP(NAT, LIST(NAT), EXT(TUP(STR, NAT)), EXT(TUP(STR, NAT)), EXT(TUP(STR, NAT)),
             EXT(LIST(TUP(EXT(NAT), STR))))
LETNUM = OPT(TUP(STR, NAT))

# ----------------------------------------------------------------------------------
# records (hand-written Lean structures of Model/PepGroups.lean; every table is checked against the source)
#   fields: (python name, lean path, type)
# ----------------------------------------------------------------------------------
RECORDS_Q = {
    # the named groups of VERSION_PATTERN that the code reads (checked: each is a named group of the pattern)
    "Groups": dict(lean="PepGroups", fields=[
        ("epoch", "epoch", OPT(STR)), ("release", "release", STR),
        ("pre_l", "pre_l", OPT(STR)), ("pre_n", "pre_n", OPT(STR)),
        ("post_n1", "post_n1", OPT(STR)), ("post_l", "post_l", OPT(STR)), ("post_n2", "post_n2", OPT(STR)),
        ("dev_l", "dev_l", OPT(STR)), ("dev_n", "dev_n", OPT(STR)), ("local", "loc", OPT(STR))]),
    # `_Version = collections.namedtuple("_Version", [...])` (checked: same field list, same order)
    "PVersion": dict(lean="PepRaw", namedtuple="_Version", fields=[
        ("epoch", "epoch", NAT), ("release", "release", LIST(NAT)), ("dev", "dev", LETNUM),
        ("pre", "pre", LETNUM), ("post", "post", LETNUM), ("local", "loc", OPT(LIST(LOCSEG)))]),
    # the objects: the attributes `__init__` sets (checked: exactly these are assigned)
    "VersionObj": dict(lean="PepObj", cls="Version", fields=[
        ("_version", "_version", REC("PVersion")), ("_key", "_key", RAWKEY)]),
    "LegacyObj": dict(lean="LegacyObj", cls="LegacyVersion", fields=[
        ("_version", "_version", STR), ("_key", "_key", TUP(INT, LIST(STR)))]),
}
CLASS_OBJ = {"Version": "VersionObj", "LegacyVersion": "LegacyObj"}

# the TRUSTED matcher: sha256 of VERSION_PATTERN (comments / white space of the VERBOSE pattern removed) and of the
# definition of `Version._regex` -- an edit of either makes every user of `match.group` UNTRANSLATABLE
# (`translate_pepversion.py --pin` prints the fingerprint of the current source)
PIN = "4d28d971c6781b91b19853cf81a4c5d7225b93557638f67b12a43f9ca7a62fd7"

# callees translated by OTHER modules (their generated definitions are used as they are)
EXTERNAL = {
    "_parse_letter_version": dict(lean="BV.GenF.parseLetterVersion", imp="BumpverVerif.Gen.F_parseLetterVersion",
                                  ctx=[], params=[("letter", OPT(STR)), ("number", OPT(STR))], ret=LETNUM, raises=False),
    "_cmpkey": dict(lean="BV.GenC.cmpkey", imp="BumpverVerif.Gen.F_cmpkey", ctx=[],
                    params=[("epoch", NAT), ("release", LIST(NAT)), ("pre", LETNUM), ("post", LETNUM), ("dev", LETNUM),
                            ("local", OPT(LIST(LOCSEG)))], ret=RAWKEY, raises=False),
}

CTX_TYPES = {"regex_search": "Str → Option PepGroups", "legacy_split": "Str → List Str"}

# ----------------------------------------------------------------------------------
# the signature table
#   cls   : the class of a method (None: a module-level function);  init: `__init__` (returns the object)
#   prop  : a property (checked: decorated with @property)
# ----------------------------------------------------------------------------------
VOBJ = REC("VersionObj")
LOBJ = REC("LegacyObj")
FUNCS = [
    dict(name="pepParseLocalVersion", file=FILE, func="_parse_local_version",
         params=[("local", OPT(STR))], ctx=[], ret=OPT(LIST(LOCSEG)), effect=False),
    dict(name="pepVersionInit", file=FILE, cls="Version", func="__init__", init="VersionObj",
         params=[("version", STR)], ctx=["regex_search"], ret=VOBJ, effect=True),
    dict(name="pepVersionEpoch", file=FILE, cls="Version", func="epoch", prop=True,
         params=[("self", VOBJ)], ctx=[], ret=NAT, effect=False),
    dict(name="pepVersionRelease", file=FILE, cls="Version", func="release", prop=True,
         params=[("self", VOBJ)], ctx=[], ret=LIST(NAT), effect=False),
    dict(name="pepVersionPre", file=FILE, cls="Version", func="pre", prop=True,
         params=[("self", VOBJ)], ctx=[], ret=LETNUM, effect=False),
    dict(name="pepVersionPost", file=FILE, cls="Version", func="post", prop=True,
         params=[("self", VOBJ)], ctx=[], ret=OPT(NAT), effect=False),
    dict(name="pepVersionDev", file=FILE, cls="Version", func="dev", prop=True,
         params=[("self", VOBJ)], ctx=[], ret=OPT(NAT), effect=False),
    dict(name="pepVersionLocal", file=FILE, cls="Version", func="local", prop=True,
         params=[("self", VOBJ)], ctx=[], ret=OPT(STR), effect=False),
    dict(name="pepVersionStr", file=FILE, cls="Version", func="__str__",
         params=[("self", VOBJ)], ctx=[], ret=STR, effect=False),
    dict(name="pepVersionBaseVersion", file=FILE, cls="Version", func="base_version", prop=True,
         params=[("self", VOBJ)], ctx=[], ret=STR, effect=False),
    dict(name="pepParseVersionParts", file=FILE, func="_parse_version_parts",
         params=[("version", STR)], ctx=["legacy_split"], ret=LIST(STR), effect=False, generator=True),
    dict(name="pepLegacyCmpkey", file=FILE, func="_legacy_cmpkey",
         params=[("version", STR)], ctx=["legacy_split"], ret=TUP(INT, LIST(STR)), effect=False),
    dict(name="pepLegacyInit", file=FILE, cls="LegacyVersion", func="__init__", init="LegacyObj",
         params=[("version", STR)], ctx=["legacy_split"], ret=LOBJ, effect=False),
    dict(name="pepLegacyStr", file=FILE, cls="LegacyVersion", func="__str__",
         params=[("self", LOBJ)], ctx=[], ret=STR, effect=False),
    dict(name="pepParse", file=FILE, func="parse",
         params=[("version", STR)], ctx=["regex_search", "legacy_split"], ret=PYVER, effect=True),
    dict(name="pepParseVersion", file="version.py", func="parse_version",
         params=[("version", STR)], ctx=["regex_search", "legacy_split"], ret=PYVER, effect=True),
    dict(name="pepToPep440", file="version.py", func="to_pep440",
         params=[("version", STR)], ctx=["regex_search", "legacy_split"], ret=STR, effect=True),
]
BY_KEY = {(s.get("cls"), s["func"]): s for s in FUNCS}
# how a call names a translated callee -> its spec
CALL_NAMES = {
    "_parse_local_version": BY_KEY[(None, "_parse_local_version")],
    "_parse_version_parts": BY_KEY[(None, "_parse_version_parts")],
    "_legacy_cmpkey": BY_KEY[(None, "_legacy_cmpkey")],
    "Version": BY_KEY[("Version", "__init__")],
    "LegacyVersion": BY_KEY[("LegacyVersion", "__init__")],
    "setuptools_v65_version.parse": BY_KEY[(None, "parse")],
    "parse_version": BY_KEY[(None, "parse_version")],
}
EXC_CLASSES_Q = {"InvalidVersion": "isInvalidVersion"}


def find_method(sources, fname, cls, func):
    src, tree = sources.module(fname)
    if cls is None:
        return sources.find(fname, ast.FunctionDef, func)
    _, cnode = sources.find(fname, ast.ClassDef, cls)
    if cnode is None:
        return src, None
    for n in cnode.body:
        if isinstance(n, ast.FunctionDef) and n.name == func:
            return src, n
    return src, None


def module_assign(sources, fname, name):
    """the value node of the LAST module-level `name = value` / `name: T = value`"""
    src, tree = sources.module(fname)
    out = None
    for n in tree.body:
        if isinstance(n, ast.Assign) and len(n.targets) == 1 and isinstance(n.targets[0], ast.Name) and n.targets[0].id == name:
            out = n.value
        if isinstance(n, ast.AnnAssign) and isinstance(n.target, ast.Name) and n.target.id == name and n.value is not None:
            out = n.value
    return out


def regex_fingerprint(sources):
    """the text that fixes the trusted matcher: VERSION_PATTERN's value and the definition of `Version._regex`"""
    vp = module_assign(sources, FILE, "VERSION_PATTERN")
    if not (isinstance(vp, ast.Constant) and isinstance(vp.value, str)):
        return None, None
    _, cnode = sources.find(FILE, ast.ClassDef, "Version")
    rx = None
    if cnode is not None:
        for n in cnode.body:
            if isinstance(n, ast.Assign) and len(n.targets) == 1 and isinstance(n.targets[0], ast.Name) \
                    and n.targets[0].id == "_regex":
                rx = ast.unparse(n.value)
    if rx is None:
        return None, None
    # comments and layout of a VERBOSE pattern carry no meaning: the fingerprint is taken of the pattern
    # with `#…` comments and white space removed
    body = re.sub(r"#[^\n]*", "", vp.value)
    body = re.sub(r"\s+", "", body)
    return sha256(body + "\n" + rx), vp.value



# ----------------------------------------------------------------------------------
class PepTranslator(TC.CliTranslator):
    def __init__(self, spec, sources):
        TC.CliTranslator.__init__(self, spec, sources)
        self.path_keys = set()      # pseudo-variables introduced for narrowing on path expressions
        self.imports = []
        self.self_type = None
        self.init_obj = spec.get("init")

    def fresh(self, base):
        # pseudo-variables are named after path expressions (`match.group('epoch')`): make an identifier of it
        return TC.CliTranslator.fresh(self, re.sub(r"[^A-Za-z0-9_]+", "_", base).strip("_") or "v")

    # -- records -----------------------------------------------------------------------------
    def record(self, name):
        if name in self.records:
            return self.records[name]
        if name not in RECORDS_Q:
            return TC.CliTranslator.record(self, name)
        d = RECORDS_Q[name]
        if "namedtuple" in d:
            v = module_assign(self.src, FILE, d["namedtuple"])
            ok = (isinstance(v, ast.Call) and ast.unparse(v.func) in ("collections.namedtuple", "namedtuple")
                  and len(v.args) == 2 and isinstance(v.args[1], (ast.List, ast.Tuple))
                  and all(isinstance(e, ast.Constant) and isinstance(e.value, str) for e in v.args[1].elts))
            if not ok:
                self.bad(None, "`%s` is not `collections.namedtuple(name, [literal field names])`" % d["namedtuple"])
            names = [e.value for e in v.args[1].elts]
            if names != [f for f, _, _ in d["fields"]]:
                self.bad(None, "fields of %s are %s, the table expects %s" % (d["namedtuple"], names, [f for f, _, _ in d["fields"]]))
        if name == "Groups":
            fp, text = regex_fingerprint(self.src)
            if fp is None:
                self.bad(None, "VERSION_PATTERN / Version._regex not found as literals")
            if fp != PIN:
                self.bad(None, "the TRUSTED regex changed (VERSION_PATTERN or Version._regex): fingerprint %s, pinned %s" % (fp, PIN))
            groups = re.findall(r"\(\?P<([A-Za-z_0-9]+)>", text)
            for f, _, _ in d["fields"]:
                if f not in groups:
                    self.bad(None, "VERSION_PATTERN has no named group `%s`" % f)
        if "cls" in d:
            _, init = find_method(self.src, FILE, d["cls"], "__init__")
            if init is None:
                self.bad(None, "class %s has no __init__" % d["cls"])
            attrs = []
            for n in ast.walk(init):
                if isinstance(n, ast.Attribute) and isinstance(n.ctx, ast.Store) and isinstance(n.value, ast.Name) \
                        and n.value.id == "self" and n.attr not in attrs:
                    attrs.append(n.attr)
            if sorted(attrs) != sorted(f for f, _, _ in d["fields"]):
                self.bad(None, "%s.__init__ sets the attributes %s, the table expects %s" % (d["cls"], attrs, [f for f, _, _ in d["fields"]]))
        r = dict(d)
        r["exact"] = True
        r["pyorder"] = [f for f, _, _ in d["fields"]]
        self.records[name] = r
        return r

    def lean_type(self, t):
        if t == PYVER:
            return "PyVersion"
        if t[0] == "rec" and t[1] in RECORDS_Q:
            return RECORDS_Q[t[1]]["lean"]
        if t[0] == "tuple":
            return "(" + " × ".join(self.lean_type(x) for x in t[1]) + ")"
        return TC.CliTranslator.lean_type(self, t)

    def unify(self, a, b):
        if a == b:
            return a
        nat = (NAT, LIT)
        if (a == STR and b in nat) or (b == STR and a in nat) or (LOCSEG in (a, b) and (a in nat + (STR,) or b in nat + (STR,))):
            return LOCSEG            # `int | str`
        if PYVER in (a, b) and all(x == PYVER or x in (VOBJ, LOBJ) for x in (a, b)):
            return PYVER
        if {a, b} == {VOBJ, LOBJ}:
            return PYVER
        return TC.CliTranslator.unify(self, a, b)

    def coerce(self, lean, frm, to, node=None):
        if frm == to:
            return lean
        if to == LOCSEG:
            if frm == STR:
                return "(LocalSeg.str %s)" % lean
            if frm in (NAT, LIT):
                return "(LocalSeg.num %s)" % lean
        if to == PYVER:
            if frm == VOBJ:
                return "(PyVersion.pep %s)" % lean
            if frm == LOBJ:
                return "(PyVersion.legacy %s)" % lean
        return TC.CliTranslator.coerce(self, lean, frm, to, node)

    # -- effects: this group's exception type -------------------------------------------------------
    def on_error(self, propagate_only=False):
        out = "(.error ex)"
        if propagate_only or self.in_loop:
            return out
        hs = self.handlers
        for i, (pred, hk) in enumerate(hs):
            saved = self.handlers
            self.handlers = hs[:i]
            try:
                code = hk()
            finally:
                self.handlers = saved
            out = "(if %s.%s ex then %s else %s)" % (EXC_TYPE, pred, _nl(code), _nl(out))
        return out

    def has_effect(self, node):
        for n in ast.walk(node):
            if isinstance(n, (ast.Try, ast.Raise)):
                return True
            if isinstance(n, ast.Call):
                nm = ast.unparse(n.func)
                if nm in CALL_NAMES and CALL_NAMES[nm]["effect"]:
                    return True
                if nm == "str" and self.effect and self.spec["func"] == "to_pep440":
                    pass
        return False

    # -- path expressions ------------------------------------------------------------------------
    def is_group_call(self, node):
        return (isinstance(node, ast.Call) and isinstance(node.func, ast.Attribute) and node.func.attr == "group"
                and len(node.args) == 1 and not node.keywords and isinstance(node.args[0], ast.Constant)
                and isinstance(node.args[0].value, str))

    def path_root(self, node):
        """the root NAME of a pure path expression (attribute chains, `.group("lit")`), else None"""
        n = node
        steps = 0
        while True:
            if isinstance(n, ast.Attribute):
                n = n.value
                steps += 1
            elif self.is_group_call(n):
                n = n.func.value
                steps += 1
            else:
                break
        if steps and isinstance(n, ast.Name):
            return n.id
        return None

    def subst_atom(self, node, env):
        """a narrowing atom on a path expression -> the same atom on a pseudo-variable bound to it"""
        target = None
        if isinstance(node, ast.Compare) and len(node.ops) == 1 and isinstance(node.ops[0], (ast.Is, ast.IsNot)) \
                and isinstance(node.comparators[0], ast.Constant) and node.comparators[0].value is None \
                and self.path_root(node.left) in env:
            target = node.left
        elif self.path_root(node) in env and not isinstance(node, ast.Name):
            target = node
        if target is None:
            return node, env
        key = ast.unparse(target)
        env2 = env
        if key not in env:
            saved_h, self.hoists = self.hoists, None
            saved_c = self.counter
            try:
                v, t = self.expr(target, env)
            except Untranslatable:
                self.counter = saved_c
                return node, env
            finally:
                self.hoists = saved_h
            if t[0] != "opt":
                return node, env
            env2 = dict(env)
            env2[key] = Var(v, t)
            self.path_keys.add(key)
        name = ast.copy_location(ast.Name(id=key, ctx=ast.Load()), target)
        if target is node:
            return name, env2
        new = ast.copy_location(ast.Compare(left=name, ops=node.ops, comparators=node.comparators), node)
        return new, env2

    def narrowing_atom(self, node, env, top=False):
        n2, e2 = self.subst_atom(node, env)
        return TC.CliTranslator.narrowing_atom(self, n2, e2, top)

    def cond(self, test, env, tk, ek, as_bool=False, top=True):
        n2, e2 = self.subst_atom(test, env)
        return TC.CliTranslator.cond(self, n2, e2, tk, ek, as_bool=as_bool, top=top)

    def changed_vars(self, env, probes):
        names = TC.CliTranslator.changed_vars(self, env, probes)
        return [n for n in names if n not in self.path_keys]

    # -- expressions ----------------------------------------------------------------------------------
    def callee(self, node, env, sp):
        if sp is self.spec:
            self.bad(node, "recursion")
        cal = dict(lean=sp["name"], ctx=sp.get("ctx", []), params=sp["params"], kwonly=len(sp["params"]),
                   defaults={}, ret=sp["ret"], raises=sp["effect"])
        if sp["name"] not in self.used_callees:
            self.used_callees.append(sp["name"])
        return self.call_callee(node, env, sp["name"], cal)

    def method_spec(self, objtype, attr):
        cls = RECORDS_Q[objtype[1]].get("cls") if objtype[0] == "rec" and objtype[1] in RECORDS_Q else None
        if cls is None:
            return None
        return BY_KEY.get((cls, attr))

    def str_of(self, v, t, node):
        if t == STR:
            return v
        if t in (NAT, LIT):
            return "(natToStr %s)" % v
        if t == LOCSEG:
            return "(match %s with | .num n => natToStr n | .str s => s)" % v
        for objt in (VOBJ, LOBJ):
            if t == objt:
                sp = self.method_spec(objt, "__str__")
                if sp is None:
                    self.bad(node, "no translated __str__")
                if sp["name"] not in self.used_callees:
                    self.used_callees.append(sp["name"])
                return "(%s %s)" % (sp["name"], v)
        if t == PYVER:
            a = self.str_of("o", VOBJ, node)
            b = self.str_of("o", LOBJ, node)
            return "(match %s with | .pep o => %s | .legacy o => %s)" % (v, a, b)
        self.bad(node, "str() of a value of type %r" % (t,))

    def expr(self, node, env):
        if isinstance(node, (ast.Attribute, ast.Call)):
            key = ast.unparse(node)
            if key in env:
                return env[key].lean, env[key].type
        if self.is_group_call(node):
            val, t = self.expr(node.func.value, env)
            if t != REC("Groups"):
                self.bad(node, "`.group(...)` on a value of type %r (a match that may be None?)" % (t,))
            r = self.record("Groups")
            for f, path, ft in r["fields"]:
                if f == node.args[0].value:
                    return "%s.%s" % (val, path), ft
            self.bad(node, "group `%s` is not in the table of groups" % node.args[0].value)
        if isinstance(node, ast.Attribute) and isinstance(node.value, ast.Name) and node.value.id == "self" and "self" in env:
            st = env["self"].type
            sp = self.method_spec(st, node.attr)
            if sp is not None and sp.get("prop"):
                _, m = find_method(self.src, sp["file"], sp["cls"], sp["func"])
                if m is None or not any(ast.unparse(d) == "property" for d in m.decorator_list):
                    self.bad(node, "`%s` is not a property of %s" % (node.attr, sp["cls"]))
                if sp is self.spec:
                    self.bad(node, "recursion")
                if sp["name"] not in self.used_callees:
                    self.used_callees.append(sp["name"])
                return "(%s %s)" % (sp["name"], env["self"].lean), sp["ret"]
        if isinstance(node, ast.BoolOp) and isinstance(node.op, ast.Or) and len(node.values) == 2:
            saved_c = self.counter
            a, ta = self.expr(node.values[0], env)
            b, tb = self.no_hoists(lambda: self.expr(node.values[1], env))
            if ta == OPT(STR) and tb == OPT(STR):
                x = self.fresh("x")
                return "(match %s with | none => %s | some %s => if (!%s.isEmpty) then (some %s) else %s)" % (
                    a, b, x, x, x, b), OPT(STR)
            self.counter = saved_c
        if isinstance(node, ast.JoinedStr):
            pieces = []
            for v in node.values:
                if isinstance(v, ast.Constant) and isinstance(v.value, str):
                    pieces.append(lean_str(v.value))
                elif isinstance(v, ast.FormattedValue) and v.conversion == -1 and v.format_spec is None:
                    p, t = self.expr(v.value, env)
                    if t not in (STR, NAT):
                        self.bad(node, "f-string with a piece of type %r (only str / int >= 0 pieces)" % (t,))
                    pieces.append(self.str_of(p, t, node))
                else:
                    self.bad(node, "f-string with a conversion or a format spec")
            return "(" + " ++ ".join(pieces or ['([] : Str)']) + ")", STR
        if isinstance(node, ast.Subscript) and isinstance(node.slice, ast.Slice):
            val, t = self.expr(node.value, env)
            if t == STR:
                sl = node.slice
                if sl.step is not None or sl.lower is not None or not (
                        isinstance(sl.upper, ast.Constant) and isinstance(sl.upper.value, int) and sl.upper.value >= 0):
                    self.bad(node, "only `s[:n]` with a literal n on a str")
                return "(List.take %d %s)" % (sl.upper.value, val), STR
        if isinstance(node, ast.UnaryOp) and isinstance(node.op, ast.USub) and isinstance(node.operand, ast.Constant) \
                and isinstance(node.operand.value, int) and not isinstance(node.operand.value, bool):
            return "(-%d)" % node.operand.value, INT
        return TC.CliTranslator.expr(self, node, env)

    def comprehension(self, node, env):
        if len(node.generators) == 1 and not node.generators[0].is_async and isinstance(node.generators[0].target, ast.Name):
            gen = node.generators[0]
            saved_c = self.counter
            xs, txs = self.expr(gen.iter, env)
            if txs[0] == "tuple":
                # a generator over a TUPLE VALUE: unrolled, component by component
                if gen.ifs:
                    self.bad(node, "a filter in a generator over a tuple")
                n_ = len(txs[1])
                outs = []
                for i, ti in enumerate(txs[1]):
                    path = ".2" * i + (".1" if i < n_ - 1 else "")
                    env2 = dict(env)
                    env2[gen.target.id] = Var("%s%s" % (xs, path), ti)
                    outs.append(self.no_hoists(lambda: self.expr(node.elt, env2)))
                t = outs[0][1]
                for _, t2 in outs[1:]:
                    t = self.unify(t, t2) if t is not None else None
                if t is None:
                    self.bad(node, "the elements of a generator over a tuple have different types")
                return "[" + ", ".join(self.coerce(v, vt, t, node) for v, vt in outs) + "]", LIST(t)
            self.counter = saved_c
        return TC.CliTranslator.comprehension(self, node, env)

    def char_class(self, name, node):
        """the characters of the module-level regex `name = re.compile("[…]")` (a plain character class)"""
        v = module_assign(self.src, self.spec["file"], name)
        if not (isinstance(v, ast.Call) and ast.unparse(v.func) == "re.compile" and len(v.args) == 1 and not v.keywords
                and isinstance(v.args[0], ast.Constant) and isinstance(v.args[0].value, str)):
            self.bad(node, "`%s` is not `re.compile(<literal>)` without flags" % name)
        pat = v.args[0].value
        if len(pat) < 3 or pat[0] != "[" or pat[-1] != "]" or pat[1] == "^":
            self.bad(node, "the regex %r is not a plain character class" % pat)
        inner, chars, i = pat[1:-1], [], 0
        while i < len(inner):
            ch = inner[i]
            if ch == "\\":
                i += 1
                if i >= len(inner) or inner[i].isalnum():
                    self.bad(node, "escape in the character class %r" % pat)
                chars.append(inner[i])
            elif ch == "-" and 0 < i < len(inner) - 1:
                self.bad(node, "a range in the character class %r" % pat)
            elif ch in "[]":
                self.bad(node, "nested bracket in the character class %r" % pat)
            else:
                chars.append(ch)
            i += 1
        return chars

    def dict_literal(self, name, node):
        """the module-level `name = {"k": "v", …}` as an association list (first occurrence of a key wins in
        `lookup`, the LAST one in a Python dict literal: duplicates are refused)"""
        v = module_assign(self.src, self.spec["file"], name)
        if not (isinstance(v, ast.Dict) and all(isinstance(k, ast.Constant) and isinstance(k.value, str) for k in v.keys)
                and all(isinstance(x, ast.Constant) and isinstance(x.value, str) for x in v.values)):
            return None
        keys = [k.value for k in v.keys]
        if len(set(keys)) != len(keys):
            self.bad(node, "duplicate keys in the dict literal `%s`" % name)
        return "[" + ", ".join("(%s, %s)" % (lean_str(k.value), lean_str(x.value)) for k, x in zip(v.keys, v.values)) + "]"

    def call(self, node, env):
        f = node.func
        fname = ast.unparse(f)
        head = f
        while isinstance(head, ast.Attribute):
            head = head.value
        free = not (isinstance(head, ast.Name) and head.id in env)
        if fname == "self._regex.search" and len(node.args) == 1 and not node.keywords and self.init_obj == "VersionObj":
            self.record("Groups")
            self.need_ctx(node, "regex_search")
            a, ta = self.expr(node.args[0], env)
            if ta != STR:
                self.bad(node, "`search` on a value of type %r" % (ta,))
            return "(regex_search %s)" % a, OPT(REC("Groups"))
        if free and fname in EXTERNAL:
            cal = EXTERNAL[fname]
            if cal["imp"] not in self.imports:
                self.imports.append(cal["imp"])
            return self.call_callee(node, env, fname, cal)
        if free and fname in CALL_NAMES and (CALL_NAMES[fname]["file"] == self.spec["file"] or "." in fname
                                             or fname == "parse_version"):
            sp = CALL_NAMES[fname]
            if fname == "parse_version" and self.spec["file"] != "version.py":
                self.bad(node, "call of `%s` is not in the whitelist" % fname)
            return self.callee(node, env, sp)
        if free and fname == RECORDS_Q["PVersion"]["namedtuple"]:
            r = self.record("PVersion")
            fields = r["fields"]
            if len(node.args) + len(node.keywords) != len(fields):
                self.bad(node, "constructor needs all %d fields" % len(fields))
            vals = {}
            for (f_, path, ft), a in zip(fields, node.args):
                vals[f_] = a
            for kw in node.keywords:
                if kw.arg is None or kw.arg in vals or kw.arg not in [x for x, _, _ in fields]:
                    self.bad(node, "bad keyword `%s`" % kw.arg)
                vals[kw.arg] = kw.value
            items = []
            # Python evaluates the arguments in SOURCE order; they are pure here (raising ones are hoisted in that order)
            done = {}
            for a in list(node.args) + [kw.value for kw in node.keywords]:
                done[id(a)] = self.expr(a, env)
            for f_, path, ft in fields:
                v, vt = done[id(vals[f_])]
                items.append("%s := %s" % (path, self.coerce(v, vt, ft, vals[f_])))
            return "({ " + ", ".join(items) + " } : %s)" % r["lean"], REC("PVersion")
        if fname == "str" and len(node.args) == 1 and not node.keywords and "str" not in env:
            a, ta = self.expr(node.args[0], env)
            return self.str_of(a, ta, node), STR
        if isinstance(f, ast.Attribute) and f.attr == "split" and isinstance(f.value, ast.Name) and f.value.id not in env \
                and len(node.args) == 1 and not node.keywords:
            name = f.value.id
            a, ta = self.expr(node.args[0], env)
            if ta != STR:
                self.bad(node, "regex split of a value of type %r" % (ta,))
            if name == "_legacy_version_component_re":
                v = module_assign(self.src, self.spec["file"], name)
                if v is None or ast.unparse(v) != "re.compile('(\\\\d+ | [a-z]+ | \\\\.| -)', re.VERBOSE)":
                    self.bad(node, "the TRUSTED regex `%s` changed: %s" % (name, ast.unparse(v) if v is not None else None))
                self.need_ctx(node, "legacy_split")
                return "(legacy_split %s)" % a, LIST(STR)
            chars = self.char_class(name, node)
            return "(splitAny [%s] %s)" % (", ".join("'%s'" % (c if c not in "'\\" else "\\" + c) for c in chars), a), LIST(STR)
        if isinstance(f, ast.Attribute) and f.attr == "get" and isinstance(f.value, ast.Name) and f.value.id not in env \
                and len(node.args) == 2 and not node.keywords:
            tbl = self.dict_literal(f.value.id, node)
            if tbl is not None:
                k_, tk_ = self.expr(node.args[0], env)
                d_, td_ = self.expr(node.args[1], env)
                if tk_ != STR or td_ != STR:
                    self.bad(node, "`.get(k, default)` on a str table needs str arguments")
                return "((lookup %s %s).getD %s)" % (k_, tbl, d_), STR
        if isinstance(f, ast.Attribute) and f.attr in ("split", "startswith", "zfill") and not node.keywords:
            saved_c = self.counter
            recv, tr = self.expr(f.value, env)
            if tr == STR and f.attr == "split" and len(node.args) == 1 and isinstance(node.args[0], ast.Constant) \
                    and isinstance(node.args[0].value, str) and node.args[0].value != "":
                return "(splitOn %s %s)" % (lean_str(node.args[0].value), recv), LIST(STR)
            if tr == STR and f.attr == "startswith" and len(node.args) == 1:
                a, ta = self.expr(node.args[0], env)
                if ta == STR:
                    return "(startsWith %s %s)" % (recv, a), BOOL
            if tr == STR and f.attr == "zfill" and len(node.args) == 1 and isinstance(node.args[0], ast.Constant) \
                    and isinstance(node.args[0].value, int) and node.args[0].value >= 0:
                return "(zfill %d %s)" % (node.args[0].value, recv), STR
            self.counter = saved_c
        return TC.CliTranslator.call(self, node, env)

    # -- statements ------------------------------------------------------------------------------------
    def pop_while(self, st, env):
        """`while xs and TEST(xs[-1]): xs.pop()` -> (xs, compute)"""
        if not (isinstance(st, ast.While) and not st.orelse and isinstance(st.test, ast.BoolOp) and isinstance(st.test.op, ast.And)
                and len(st.test.values) == 2 and isinstance(st.test.values[0], ast.Name)):
            return None
        name = st.test.values[0].id
        body = [s for s in st.body if not self.is_dropped(s)]
        if not (len(body) == 1 and isinstance(body[0], ast.Expr) and ast.unparse(body[0].value) == "%s.pop()" % name):
            return None
        last = "%s[-1]" % name

        class Sub(ast.NodeTransformer):
            def visit_Subscript(self, n):
                if ast.unparse(n) == last:
                    return ast.copy_location(ast.Name(id="last__", ctx=ast.Load()), n)
                return self.generic_visit(n)
        test = Sub().visit(ast.parse(ast.unparse(st.test.values[1]), mode="eval").body)
        ast.fix_missing_locations(test)
        if any(isinstance(n, ast.Name) and n.id == name for n in ast.walk(test)):
            return None

        def compute(e):
            if name not in e or e[name].type[0] != "list":
                self.bad(st, "`%s` is not a list here" % name)
            if e[name].type[1] is None:
                return e[name].lean, e[name].type      # element type unknown = the literal `[]`: nothing to pop
            e2 = dict(e)
            e2["last__"] = Var("last__", e[name].type[1])
            b = self.no_hoists(lambda: self.cond(test, e2, lambda _: "true", lambda _: "false", as_bool=True))
            return "(popWhile (fun last__ => %s) %s)" % (b, e[name].lean), e[name].type
        return name, compute

    def as_assignment(self, st, env):
        pw = self.pop_while(st, env)
        if pw is not None:
            return pw
        if isinstance(st, ast.Expr) and isinstance(st.value, ast.Yield) and self.generator:
            if st.value.value is None:
                self.bad(st, "`yield` without a value")

            def compute_yield(e):
                acc = e["yield"]
                v_, tv_ = self.expr(st.value.value, e)
                return "(%s ++ [%s])" % (acc.lean, self.coerce(v_, tv_, acc.type[1], st)), acc.type
            return "yield", compute_yield
        return TC.CliTranslator.as_assignment(self, st, env)

    def assign(self, name, compute, env, kr, at):
        if name == "yield":
            def cont(vt):
                v, t = vt
                env2 = dict(env)
                env2[name] = Var(TF.YIELD_ACC, t)
                return "let %s := %s;\n%s" % (TF.YIELD_ACC, v, kr(env2))
            return self.with_hoists(compute, cont)

        def kr2(e):
            # a pseudo-variable rooted at a reassigned name is stale
            stale = [k for k in e if k != name and re.match(r"^%s\b[.(\[]" % re.escape(name), k)]
            if stale:
                e = {k: v for k, v in e.items() if k not in stale}
            return kr(e)
        return TC.CliTranslator.assign(self, name, compute, env, kr2, at)

    def block(self, stmts, env, k):
        if not stmts:
            return k(env)
        st, rest = stmts[0], stmts[1:]

        def kr(e):
            return self.block(rest, e, k)
        if isinstance(st, ast.Raise):
            exc = st.exc
            name = ast.unparse(exc.func) if isinstance(exc, ast.Call) else (ast.unparse(exc) if exc is not None else "")
            if name not in EXC_CLASSES_Q or st.cause is not None:
                self.bad(st, "only `raise InvalidVersion(...)` is supported")
            if self.handlers:
                self.bad(st, "`raise` inside a `try`")
            return self.exit_term("%s.invalidVersion" % EXC_TYPE, st)
        if isinstance(st, ast.Assign) and len(st.targets) == 1 and isinstance(st.targets[0], ast.Attribute) \
                and isinstance(st.targets[0].value, ast.Name) and st.targets[0].value.id == "self":
            if not self.init_obj:
                self.bad(st, "assignment to an attribute of `self` outside `__init__`")
            attr = st.targets[0].attr
            r = self.record(self.init_obj)
            hit = [x for x in r["fields"] if x[0] == attr]
            if not hit:
                self.bad(st, "`self.%s` is not an attribute in the table" % attr)
            key = "self.%s" % attr

            def cont(vt):
                v, t = vt
                ln = "self_%s" % attr
                env2 = dict(env)
                env2[key] = Var(ln, hit[0][2])
                self.path_keys.discard(key)
                return "let %s : %s := %s;\n%s" % (ln, self.lean_type(hit[0][2]), self.coerce(v, t, hit[0][2], st), kr(env2))
            return self.with_hoists(lambda: self.expr(st.value, env), cont)
        if isinstance(st, ast.Try):
            return self.try_stmt(st, rest, env, k)
        if isinstance(st, ast.Return) and self.generator:
            self.bad(st, "`return` inside a generator")
        return TC.CliTranslator.block(self, stmts, env, k)

    def try_stmt(self, st, rest, env, k):
        if not self.effect:
            self.bad(st, "`try` inside a function declared free of effects")
        if st.finalbody or len(st.handlers) != 1:
            self.bad(st, "only `try: … except Cls: …` with one handler, without finally")
        h = st.handlers[0]
        cls = ast.unparse(h.type) if h.type is not None else None
        if cls not in EXC_CLASSES_Q:
            self.bad(st, "handler for `%s` (supported: %s)" % (cls, ", ".join(sorted(EXC_CLASSES_Q))))
        if h.name is not None and any(isinstance(n, ast.Name) and n.id == h.name for b in h.body for n in ast.walk(b)):
            self.bad(st, "the handler uses the exception object")
        outer = list(self.handlers)

        def kr(e):
            return self.block(rest, e, k)

        def handler():
            return self.block(h.body, env, kr)

        def after(e):
            # the `else` block (if any) and the rest run OUTSIDE the handler
            saved = self.handlers
            self.handlers = outer
            try:
                return self.block(list(st.orelse), e, kr)
            finally:
                self.handlers = saved
        self.handlers = outer + [(EXC_CLASSES_Q[cls], handler)]
        try:
            return self.block(st.body, env, after)
        finally:
            self.handlers = outer

    # -- the whole function -------------------------------------------------------------------------------
    def translate(self):
        spec = self.spec
        src, node = find_method(self.src, spec["file"], spec.get("cls"), spec["func"])
        if node is None:
            raise Untranslatable(self.fn, None, "function not found in %s" % spec["file"])
        self.source_text = ast.get_source_segment(src, node)
        a = node.args
        if a.vararg or a.kwarg or a.posonlyargs or a.kwonlyargs or a.defaults:
            self.bad(node, "only plain positional parameters without defaults")
        pynames = [x.arg for x in a.args]
        want = [p for p, _ in spec["params"]]
        if spec.get("init"):
            want = ["self"] + want
        if pynames != want:
            self.bad(node, "parameters are %s, the signature table expects %s" % (pynames, want))
        isprop = any(ast.unparse(d) == "property" for d in node.decorator_list)
        if bool(spec.get("prop")) != isprop or len(node.decorator_list) != (1 if isprop else 0):
            self.bad(node, "decorators %s differ from the signature table" % [ast.unparse(d) for d in node.decorator_list])
        self.generator = any(isinstance(n, (ast.Yield, ast.YieldFrom)) for n in ast.walk(node))
        if self.generator != bool(spec.get("generator")):
            self.bad(node, "generator / plain function differs from the signature table")
        if any(isinstance(n, ast.YieldFrom) for n in ast.walk(node)):
            self.bad(node, "`yield from`")
        env = {}
        params = []
        for c in spec.get("ctx", []):
            params.append("(%s : %s)" % (c, CTX_TYPES[c]))
        for p, t in spec["params"]:
            if t[0] == "rec":
                self.record(t[1])
            env[p] = Var(lean_ident(p), t)
            params.append("(%s : %s)" % (lean_ident(p), self.lean_type(t)))
        if spec.get("init"):
            self.record(spec["init"])
        rt = self.lean_type(spec["ret"])
        if self.effect:
            rt = "Except %s (%s)" % (EXC_TYPE, rt) if " " in rt and not rt.startswith("(") else "Except %s %s" % (EXC_TYPE, rt)

        def fall_off(e):
            if spec.get("init"):
                r = self.record(spec["init"])
                items = []
                for f, path, ft in r["fields"]:
                    key = "self.%s" % f
                    if key not in e:
                        self.bad(node, "`self.%s` is not set on every path" % f)
                    items.append("%s := %s" % (path, e[key].lean))
                return self.wrap_ok("({ " + ", ".join(items) + " } : %s)" % r["lean"])
            if self.generator:
                return self.wrap_ok(e["yield"].lean)
            return self.ret(None, e, node)
        if self.generator:
            env["yield"] = Var(TF.YIELD_ACC, spec["ret"])
            body = "let %s : %s := [];\n%s" % (TF.YIELD_ACC, self.lean_type(spec["ret"]), self.block(list(node.body), env, fall_off))
        else:
            body = self.block(list(node.body), env, fall_off)
        used = [c for c in spec.get("ctx", [])]
        head = "def %s %s : %s :=" % (spec["name"], " ".join(params), rt)
        return [], head + "\n" + indent(body, 2) + "\n"


# ----------------------------------------------------------------------------------
# file generation
# ----------------------------------------------------------------------------------
GENERATOR = "harness/translate_pepversion.py"


def header(spec, text, note):
    return [
        "/- GENERATED by %s from the Python AST. Do not edit." % GENERATOR,
        "   source   : src/bumpver/%s" % spec["file"],
        "   function : %s%s" % ((spec["cls"] + ".") if spec.get("cls") else "", spec["func"]),
        "   sha256   : %s%s" % (sha256(text) if text else "(function not found)", note),
    ]


def render(spec, sources):
    fname = "F_%s.lean" % spec["name"]
    tr = PepTranslator(spec, sources)
    try:
        _, body = tr.translate()
    except Untranslatable as ex:
        text = getattr(tr, "source_text", None)
        lines = header(spec, text, "") + [
            "",
            "   UNTRANSLATABLE: %s" % str(ex).replace("-/", "- /"),
            "   (no definition is generated; the ties of %s cannot compile until this is resolved) -/" % spec["name"],
            "",
        ]
        return fname, "\n".join(lines), ex
    except Exception as ex:  # unreadable / unparsable source, or an internal error: never a silent success
        lines = [
            "/- GENERATED by %s. Do not edit." % GENERATOR,
            "   source   : src/bumpver/%s" % spec["file"],
            "   function : %s" % spec["func"],
            "",
            "   UNTRANSLATABLE: the source could not be read/parsed/translated: %s: %s -/"
            % (type(ex).__name__, str(ex).replace("-/", "- /")),
            "",
        ]
        return fname, "\n".join(lines), ex
    lines = header(spec, tr.source_text, "  (of the function's source text) -/")
    imports = [MODEL_IMPORT] + list(tr.imports)
    for c in tr.used_callees:
        imports.append("BumpverVerif.Gen.F_%s" % c)
    for imp in imports:
        lines.append("import %s" % imp)
    lines.append("set_option linter.unusedVariables false")
    lines.append("namespace %s" % NAMESPACE)
    lines.append("")
    lines.append("/-- `%s.%s%s` -/" % (spec["file"][:-3], (spec["cls"] + ".") if spec.get("cls") else "", spec["func"]))
    lines.append(body)
    lines.append("end %s" % NAMESPACE)
    lines.append("")
    return fname, "\n".join(lines), None


def generate(report=None):
    """{filename: content} for lean/BumpverVerif/Gen/"""
    sources = TF.Sources()
    out = {}
    for spec in FUNCS:
        fname, content, err = render(spec, sources)
        out[fname] = content
        if report is not None:
            report.append(((spec["cls"] + "." if spec.get("cls") else "") + spec["func"], fname, err))
    return out


def main():
    rep = []
    if "--pin" in sys.argv:
        print(regex_fingerprint(TF.Sources())[0])
        return 0
    files = generate(rep)
    gen = os.path.join(os.path.dirname(HERE), "lean", "BumpverVerif", "Gen")
    if "--write" in sys.argv:
        for name, content in files.items():
            path = os.path.join(gen, name)
            old = open(path, encoding="utf-8").read() if os.path.exists(path) else None
            if old != content:
                with open(path, "w", encoding="utf-8") as f:
                    f.write(content)
                print("wrote", name)
    for func, fname, err in rep:
        print("%-30s %-34s %s" % (func, fname, "ok" if err is None else "UNTRANSLATABLE: %s" % err))
    if "--show" in sys.argv:
        for name, content in files.items():
            print("=" * 20, name)
            print(content)
    return 0


if __name__ == "__main__":
    sys.exit(main())
