"""Seeded generators shared by the property modules: version patterns of the documented
grammar (a mostly-valid stream and a malformed stream), version states, dates, lines."""
import datetime as dt

CAL_Y = ["YYYY", "YY", "0Y"]
CAL_G = ["GGGG", "GG", "0G"]
PART_FIELD = {
    "YYYY": "year_y", "YY": "year_y", "0Y": "year_y", "GGGG": "year_g", "GG": "year_g", "0G": "year_g",
    "Q": "quarter", "MM": "month", "0M": "month", "DD": "dom", "0D": "dom", "JJJ": "doy", "00J": "doy",
    "MAJOR": "major", "MINOR": "minor", "PATCH": "patch", "BUILD": "bid", "BLD": "bid", "TAG": "tag", "PYTAG": "pytag",
    "NUM": "num", "INC0": "inc0", "INC1": "inc1", "WW": "week_w", "0W": "week_w", "UU": "week_u", "0U": "week_u",
    "VV": "week_v", "0V": "week_v",
}
FIXED_WIDTH = {"YYYY": 4, "0Y": 2, "GGGG": 4, "0G": 2, "Q": 1, "0M": 2, "0D": 2, "00J": 3, "0W": 2, "0U": 2, "0V": 2}
ALPHA_PARTS = {"TAG", "PYTAG"}
TAGS = ["alpha", "beta", "dev", "rc", "post", "final"]
ZEROABLE = {"MAJOR", "MINOR", "PATCH", "TAG", "PYTAG", "NUM", "INC0"}
SEPS = [".", ".", ".", "-", "_", "w", "q", "+", "#", "/", ":", "~", "rel", "x."]


def cal_combo(rng):
    """a coherent list of calendar parts"""
    r = rng.random()
    if r < 0.15:
        return []
    y = rng.choice(CAL_Y)
    g = rng.choice(CAL_G)
    pick = rng.choice(["y", "ym", "ymd", "yj", "yq", "yqm", "yw", "yu", "gv", "g", "ym", "ymd"])
    m, d = rng.choice(["MM", "0M"]), rng.choice(["DD", "0D"])
    return {
        "y": [y], "ym": [y, m], "ymd": [y, m, d], "yj": [y, rng.choice(["JJJ", "00J"])], "yq": [y, "Q"],
        "yqm": [y, "Q", m], "yw": [y, rng.choice(["WW", "0W"])], "yu": [y, rng.choice(["UU", "0U"])],
        "gv": [g, rng.choice(["VV", "0V"])], "g": [g],
    }[pick]


def num_combo(rng):
    r = rng.random()
    if r < 0.25:
        return ["MAJOR", "MINOR", "PATCH"]
    if r < 0.35:
        return ["MAJOR", "MINOR"]
    if r < 0.5:
        return [rng.choice(["BUILD", "BLD"])]
    if r < 0.6:
        return [rng.choice(["INC0", "INC1"])]
    if r < 0.7:
        return ["MINOR", rng.choice(["INC0", "INC1"])]
    if r < 0.8:
        return ["PATCH"]
    if r < 0.9:
        return [rng.choice(["BUILD", "BLD"]), "PATCH"]
    return []


def tail_combo(rng):
    """optional tail of tag / num (as nested optional groups or plain)"""
    r = rng.random()
    if r < 0.25:
        return ""
    sep = rng.choice(["-", "-", "", ".", "_"])
    if r < 0.31:
        # ESCAPED brackets (literal text) inside an optional group: `[ \[TAG\]]`, `[-\[TAG[NUM]\]]`
        return rng.choice(["[%s\\[TAG\\]]", "[%s\\[TAG[NUM]\\]]", "[%s\\[TAG\\]NUM]"]) % (sep or "-")     # (no blank: version patterns with blanks are refused by the config reader)
    if r < 0.45:
        return "[%sTAG]" % sep
    if r < 0.6:
        return "[%sTAG[NUM]]" % sep
    if r < 0.7:
        return "[PYTAGNUM]"
    if r < 0.78:
        return "[PYTAG[NUM]]"
    if r < 0.85:
        return "[%sTAGNUM]" % sep
    if r < 0.9:
        return "%sTAG" % (sep or "-")
    if r < 0.95:
        return "[%sTAG%sNUM]" % (sep or "-", rng.choice([".", "-"]))
    return "-TAGNUM"


def join_parts(rng, parts, wf=True, cuts=None):
    """`cuts` (a list) receives the offsets at which a separator + part starts (candidates for an optional group)"""
    out = ""
    prev = None
    for p in parts:
        if prev is None:
            out += p
        else:
            sep = rng.choice(SEPS)
            if rng.random() < 0.25:
                # adjacency: only legal (uniquely readable) when the left part is fixed-width or alphabetic
                # and the right part cannot be confused with what precedes it
                if (not wf) or (prev in FIXED_WIDTH and (p in FIXED_WIDTH or p in ALPHA_PARTS)):
                    sep = ""
            if cuts is not None and sep and not sep[0].isdigit():
                cuts.append(len(out))
            out += sep + p
        prev = p
    return out


def gen_pattern(rng, wf=True):
    """a version pattern of the documented grammar. wf=True: uniquely readable (boundary conditions
    respected, each field at most once, lower-case literal text, brackets only as groups or escaped)."""
    for _ in range(100):
        prefix = rng.choice(["", "", "v", "v", "ver-", "r", "release_", "\\[x\\]", "(", "*", "+"]) if rng.random() < 0.6 else ""
        cal = cal_combo(rng)
        num = num_combo(rng)
        parts = cal + num
        if not parts:
            continue
        cuts = []
        body = join_parts(rng, parts, wf, cuts)
        tail = tail_combo(rng)
        # ANY trailing run of "separator + part" items may be an optional group (and again inside it): this puts every kind of
        # part — INC0/INC1, BUILD, calendar parts, MINOR — inside optional groups, not only the README's PATCH/TAG/NUM tails
        if cuts and rng.random() < 0.3:
            chosen = sorted(rng.sample(cuts, min(len(cuts), rng.choice([1, 1, 2]))))
            for k, c in enumerate(reversed(chosen)):
                body = body[:c] + "[" + body[c:]
            body = body + tail + "]" * len(chosen)
            tail = ""
        # nested optional numeric groups, README style: MAJOR[.MINOR[.PATCH[...]]]
        if num == ["MAJOR", "MINOR", "PATCH"] and not cal and rng.random() < 0.4:
            body = "MAJOR[.MINOR[.PATCH%s]]" % tail
            tail = ""
        elif num[-1:] == ["PATCH"] and rng.random() < 0.2 and len(parts) > 1:
            idx = body.rfind("PATCH")
            sep_start = idx
            while sep_start > 0 and not body[sep_start - 1].isupper() and not body[sep_start - 1].isdigit():
                sep_start -= 1
            if sep_start < idx:
                body = body[:sep_start] + "[" + body[sep_start:] + tail + "]"
                tail = ""
        suffix = rng.choice(["", "", "", ")", "!", "-x", "\\]"]) if rng.random() < 0.3 else ""
        pat = prefix + body + tail + suffix
        if wf and not is_wf(pat):
            continue
        return pat
    return "vYYYY0M.BUILD[-TAG]"


def fields_of(pat):
    """fields used by a pattern, by longest-match tokenisation (right to left like the code)"""
    names = sorted(PART_FIELD, key=len, reverse=True)
    out = []
    i = 0
    while i < len(pat):
        for n in names:
            if pat.startswith(n, i):
                out.append(n)
                i += len(n)
                break
        else:
            i += 1
    return out


def is_wf(pat):
    toks = fields_of(pat)
    fields = [PART_FIELD[t] for t in toks]
    if len(set(fields)) != len(fields):
        return False
    # literal text must not contain upper-case letters (so no part name) — what remains after removing tokens
    rest = pat
    for t in sorted(toks, key=len, reverse=True):
        rest = rest.replace(t, "\0", 1)
    if any(c.isupper() for c in rest):
        return False
    # a variable-width numeric part must not be directly followed (through optional-group openers) by a digit-initial item
    j = 0
    names = sorted(PART_FIELD, key=len, reverse=True)
    i = 0
    prev_var = False
    while i < len(pat):
        for n in names:
            if pat.startswith(n, i):
                if prev_var and n not in ALPHA_PARTS:
                    return False
                prev_var = (n not in FIXED_WIDTH and n not in ALPHA_PARTS) or False
                if n in ALPHA_PARTS:
                    prev_var = False
                i += len(n)
                break
        else:
            c = pat[i]
            if c in "[]":
                pass  # group brackets do not render
            elif c == "\\":
                prev_var = False
            else:
                if prev_var and c.isdigit():
                    return False
                prev_var = False
            i += 1
    if "TAG" in toks and "PYTAG" in toks:
        return False
    if ("YYYY" in toks or "YY" in toks or "0Y" in toks) and ("VV" in toks or "0V" in toks):
        return False
    if ("GGGG" in toks or "GG" in toks or "0G" in toks) and any(t in toks for t in ("WW", "0W", "UU", "0U")):
        return False
    # an alphabetic tag directly followed by lower-case literal text can be extended by it
    for t in ("PYTAG", "TAG"):
        k = pat.find(t)
        if k >= 0:
            after = pat[k + len(t):].lstrip("[]")
            if after[:1].isalpha() and after[:1].islower():
                return False
            before = pat[:k].rstrip("[]")
            if before[-1:].isalpha() and before[-1:].islower():
                return False
    return True


MALFORMED = ["YYYY.MM[", "]YYYY", "v[[MAJOR]", "YYYY.MM-INC0", "MAJOR.MINOR.PATCH.NUM[PYTAG]", "YYYYMM", "MMDD", "a|b", "x^y", "x$y",
             "a\\d", "MAJOR[.MINOR][.PATCH]", "YYYY.YYYY", "vYYYY.VV", "GGGG.WW", "v{year}", "[MAJOR]", "BUILDBUILD", "MAJORMINOR",
             "^vMAJOR.MINOR$", "vYYYY.0M.0D", "TAGNUM", "vMAJOR.MINOR.PATCH-TAGNUM", "YYYY.0M.0D.BUILD", "", " ", "v", "\\", "[", "]"]


def gen_any_pattern(rng):
    r = rng.random()
    if r < 0.7:
        return gen_pattern(rng, True)
    if r < 0.9:
        return gen_pattern(rng, False)
    return rng.choice(MALFORMED)


def gen_date(rng, lo=dt.date(1000, 1, 1), hi=dt.date(9999, 12, 31)):
    r = rng.random()
    if r < 0.5:
        lo2, hi2 = dt.date(2001, 1, 1), dt.date(2099, 12, 31)
    else:
        lo2, hi2 = lo, hi
    if r < 0.25:
        # year boundaries
        y = rng.randint(lo2.year, hi2.year - 1)
        return dt.date(y, 12, 31) + dt.timedelta(days=rng.randint(-8, 8))
    n = rng.randint(lo2.toordinal(), hi2.toordinal())
    return dt.date.fromordinal(n)


def gen_nat(rng):
    return rng.choice([0, 0, 1, 1, 2, 9, 10, 11, 99, 100, 101, 999, 1000, rng.randint(0, 50), rng.randint(0, 100000)])


def gen_bid(rng):
    r = rng.random()
    if r < 0.4:
        return str(rng.randint(1000, 9999))
    if r < 0.6:
        return rng.choice(["0001", "0999", "1001", "1999", "8999", "9998", "0033", "22000", "19999", "999", "99", "1", "0"])
    if r < 0.8:
        return "".join(rng.choice("0123456789") for _ in range(rng.randint(1, 7)))
    return str(rng.randint(1, 99999))


def surround(rng, text):
    """embed `text` in a line of surrounding text"""
    pre = rng.choice(["", "", "version = \"", "__version__ = '", "Copyright (c) ", "pkg==", "  ", "\t", "[badge](https://x/", "é→ ", "x" * rng.randint(0, 5)])
    post = rng.choice(["", "", "\"", "'", " and more", ")", " # trailing", "\t", " ✓"])
    return pre + text + post
