#!/venv/bin/python
"""Entry point of every check:  ./check <ID> [--tier quick|thorough] [--replay file]"""
import os, sys, json, argparse, importlib, traceback

sys.path.insert(0, os.path.dirname(os.path.abspath(__file__)))
import common
from common import Check, Driver, log


def main():
    ap = argparse.ArgumentParser()
    ap.add_argument("pid")
    ap.add_argument("--tier", default=os.environ.get("VERIF_TIER", "quick"))
    ap.add_argument("--replay", default=None)
    ap.add_argument("--no-build", action="store_true", help="(debug) skip lake build / audit")
    a = ap.parse_args()
    tier = a.tier if a.tier in ("quick", "thorough") else "quick"
    pid = a.pid.upper()
    mod = importlib.import_module("props." + pid.lower())
    if a.replay:
        payload = json.load(open(a.replay))
        verdict = mod.replay(payload)
        if verdict:
            print("VIOLATION property=%s replay=%s" % (pid, a.replay))
            log("  " + str(verdict))
            return 1
        log("replay: property holds on this input now")
        return 0
    chk = Check(pid, tier)
    try:
        if not a.no_build:
            chk.build = common.build_and_audit(pid, tier)
            if not chk.build.ok:
                log("build/audit not ok: stage=%s" % chk.build.stage)
                log(chk.build.output[-3000:])
        driver = Driver()
        known_lines = mod.run(chk, driver, tier) or []
        # the trusted primitives the source-level ties of this property stand on (str/list/dict/date built-ins as Lean definitions)
        # against CPython — on every run, because nothing proves them
        if common.registered_ties(pid) and driver.available():
            import props.prims as prims
            prims.run(chk, driver, 30000 if tier == "thorough" else 1500)
        # a source file this property is anchored in changed since the recorded baseline: not an alarm, but the place where
        # model and code are most likely to have drifted gets a deeper run (two more rounds with fresh seeds)
        try:
            import anchor_hashes
            changed = anchor_hashes.changed_files(pid)
        except Exception:
            changed = []
        chk.extra["anchor_files_changed"] = changed
        if changed and tier == "quick" and not chk.violations and not a.no_build:
            import random
            for extra_round in (1, 2):
                if chk.violations:
                    break
                log("anchor file(s) %s changed since the baseline: extra round %d" % (changed, extra_round))
                chk.rng = random.Random(chk.seed + 1000 * extra_round)
                mod.run(chk, driver, tier)
        broken = (chk.build is not None and not chk.build.ok) or chk.disagreements
        if broken and not chk.violations:
            log("obligation or correspondence broken: searching the implementation for a failing input")
            if hasattr(mod, "search"):
                mod.search(chk, driver, tier)
        return chk.finish(known_lines, getattr(mod, "NOTE", ""))
    except Exception as ex:
        tb = traceback.format_exc()
        sys.stderr.write(tb)
        # An exception that escapes from bumpver's OWN code while the harness drives it the way it does on the unchanged tree (where no
        # such exception occurs) is a change of behaviour of the implementation, not a tool error: the correspondence is broken.  It is
        # reported like a broken obligation for which no failing input of the property itself was found; the traceback is the replay.
        # Anything else (an exception inside the harness) stays a tool error (exit 2).
        repo_src = os.path.join(os.path.realpath(common.REPO), "src") + os.sep
        frames = traceback.extract_tb(ex.__traceback__)
        if frames and os.path.realpath(frames[-1].filename).startswith(repo_src):
            name = "%s-exc-%s.json" % (pid, __import__("hashlib").sha1(tb.encode()).hexdigest()[:8])
            rp = chk.write_replay(name, {"property": pid, "kind": "no-failing-input-found", "broken": [
                "correspondence: the implementation raised %s in %s:%d (%s), which the model and the unchanged code never do on these inputs" % (
                    type(ex).__name__, os.path.relpath(frames[-1].filename, common.REPO), frames[-1].lineno, frames[-1].name)],
                "traceback": tb[-4000:], "seed": chk.seed, "tier": tier})
            print("VIOLATION property=%s replay=%s no-failing-input-found" % (pid, rp), flush=True)
            return 1
        return 2


if __name__ == "__main__":
    sys.exit(main())
