#!/venv/bin/python
"""Python -> Lean FUNCTION translator, group `patterns`: the pattern COMPILER of bumpver
(src/bumpver/v2patterns.py: `_iter_part_patterns`, `_replace_pattern_parts`, `_compile_pattern_re`,
`_convert_to_pep440`, `normalize_pattern`, `compile_pattern`, `compile_patterns`).

This module extends harness/translate_funcs.py (it imports it and subclasses `FuncTranslator`; the base
module is not edited).  New constructs: `while True:` / `break` (explicit fuel), generators (`yield`),
tuple-unpacking assignments and loop targets, sets and dicts, slices, `str` indexing (IndexError), dict
subscripts (KeyError), f-strings, `str.find/startswith`, `re.subn` with the three regex literals of the
source (any other regex literal is refused), `re.compile` WITHOUT flags, `sorted`, `list.sort(key=len,
reverse=True)`, `dict(<pairs>)`, list comprehensions over one plain generator, calls of other translated
functions.  Everything in a function BODY is translated from the AST; the signature table below fixes only
names and static types.  The supported subset and every trusted primitive are documented in
harness/TRANSLATE_PATTERNS.md.

Contract (same as translate_funcs.generate): `generate(report=None)` returns {filename: content} for
lean/BumpverVerif/Gen/; a function outside the subset yields a file that contains only a comment
`UNTRANSLATABLE: ...`, so that exactly the tie theorems that need it stop compiling.

Standalone:  /venv/bin/python harness/translate_patterns.py [--write] [--show]
"""
import ast
import os
import sys

HERE = os.path.dirname(os.path.abspath(__file__))
sys.path.insert(0, HERE)

import translate_funcs as TF                                            # noqa: E402
from translate_funcs import (Untranslatable, BOOL, INT, NAT, LIT, STR, NONE, OPT, LIST, TUP, REC,   # noqa: E402
                             Var, lean_ident, lean_str, indent, sha256, Sources, is_intlike, _nl, _arm)


# ----------------------------------------------------------------------------------
# additional static types
# ----------------------------------------------------------------------------------
def DICT(k, v):        # insertion-ordered association list `List (K × V)`, keys pairwise distinct
    return ("dict", k, v)


def SET(t):            # duplicate-free `List T` (insertion order; never iterated)
    return ("set", t)


RE = ("re",)           # a compiled regular expression: the model's `Re`

SORT_KEY = TUP(INT, INT)
POS_PART = TUP(INT, INT, STR)

# module-level tables of v2patterns.py: they become explicit PARAMETERS of the generated definitions
# (the ties instantiate them with the GENERATED tables of Gen/V2Tables.lean)
GLOBALS = {
    "RE_PATTERN_ESCAPES": dict(lean="escapes", type=LIST(TUP(STR, STR)), gen="Gen.rePatternEscapes"),
    "PART_PATTERNS": dict(lean="partPatterns", type=DICT(STR, STR), gen="Gen.partPatterns"),
    "PATTERN_PART_FIELDS": dict(lean="partFields", type=DICT(STR, STR), gen="Gen.partFields"),
    "PEP440_PART_SUBSTITUTIONS": dict(lean="pep440Subst", type=DICT(STR, STR), gen="Gen.pep440PartSubstitutions"),
}
GLOBAL_ORDER = ["RE_PATTERN_ESCAPES", "PART_PATTERNS", "PATTERN_PART_FIELDS", "PEP440_PART_SUBSTITUTIONS"]

# NamedTuples of this group (own table: translate_funcs.RECORDS is not touched)
MY_RECORDS = {
    "Pattern": dict(
        lean="PyPattern", source=("patterns.py", "Pattern"), generated=True, params="", leanname="PyPattern"),
}
MY_ANNOTATIONS = {"str": STR, "typ.Pattern[str]": RE}
MY_CONSTRUCTORS = {"Pattern": ("rec", "Pattern")}

PRIMS = "BumpverVerif.Gen.PatternsPrims"
V2P = "BumpverVerif.Model.V2Patterns"

# ----------------------------------------------------------------------------------
# the signature table (in dependency order: callees first)
# ----------------------------------------------------------------------------------
FUNCS = [
    dict(name="iterPartPatterns", file="v2patterns.py", func="_iter_part_patterns",
         params=[("pattern", STR)], ret=LIST(TUP(SORT_KEY, POS_PART)), generator=True),
    dict(name="replacePatternParts", file="v2patterns.py", func="_replace_pattern_parts",
         params=[("pattern", STR)], ret=STR),
    dict(name="compilePatternRe", file="v2patterns.py", func="_compile_pattern_re",
         params=[("normalized_pattern", STR)], ret=RE),
    dict(name="convertToPep440", file="v2patterns.py", func="_convert_to_pep440",
         params=[("version_pattern", STR)], ret=STR),
    dict(name="normalizePattern", file="v2patterns.py", func="normalize_pattern",
         params=[("version_pattern", STR), ("raw_pattern", STR)], ret=STR),
    dict(name="compilePattern", file="v2patterns.py", func="compile_pattern",
         params=[("version_pattern", STR), ("raw_pattern", OPT(STR))], ret=REC("Pattern"),
         decls=[("rec", "Pattern")]),
    dict(name="compilePatterns", file="v2patterns.py", func="compile_patterns",
         params=[("version_pattern", STR), ("raw_patterns", LIST(STR))], ret=LIST(REC("Pattern"))),
]
CALLEES = {s["func"]: s for s in FUNCS}

# decorators that do not change the result of a pure function
IDENTITY_DECORATORS = {"utils.memo"}

# names the generated text uses itself: a Python local of the same name would shadow them
RESERVED = {"fuel", "yielded", "lookup", "isInfix", "replaceAll", "startsWith", "natToStr", "subBracket",
            "parseRe", "some", "none", "true", "false", "decide", "PyP", "GenF", "List", "Int", "Nat", "Str",
            "ClsItem", "Prod", "Option"} | {g["lean"] for g in GLOBALS.values()}


class _Restart(Exception):
    """the function turned out to be able to raise / run out of fuel: translate again, Option-valued"""


def lean_char(c):
    o = ord(c)
    if c == "\\":
        return "'\\\\'"
    if c == "'":
        return "'\\''"
    if 32 <= o < 127:
        return "'%s'" % c
    return "'\\u{%x}'" % o


class Info:
    """what a caller needs to know about an already translated function"""

    def __init__(self, spec, globals_, uses_fuel, raises):
        self.spec = spec
        self.globals = globals_      # python names, in GLOBAL_ORDER
        self.uses_fuel = uses_fuel
        self.raises = raises


# ----------------------------------------------------------------------------------
# regex literals of `re.subn`
# ----------------------------------------------------------------------------------
def parse_subn_literals(tr, node, pat, repl):
    """-> ("bracket", char, repl_text) | ("delcls", negated, [ClsItem terms]); anything else is refused.
    The regex literal is parsed with Python's own `re._parser` (never executed)."""
    import re._parser as P
    import re._constants as C
    try:
        tree = list(P.parse(pat))
    except Exception as ex:   # pragma: no cover
        tr.bad(node, "regex literal does not parse: %s" % ex)

    def lit_of(item):
        op, av = item
        if op == C.LITERAL:
            return chr(av)
        if op == C.IN and len(av) == 1 and av[0][0] == C.LITERAL:
            return chr(av[0][1])
        return None

    # shape 1:  ([^\\]|^)B   with replacement  \1TEXT
    if len(tree) == 2 and tree[0][0] == C.SUBPATTERN and lit_of(tree[1]) is not None:
        group, add_flags, del_flags, sub = tree[0][1]
        sub = list(sub)
        ok = group == 1 and not add_flags and not del_flags and len(sub) == 1 and sub[0][0] == C.BRANCH
        if ok:
            alts = [list(a) for a in sub[0][1][1]]
            ok = (len(alts) == 2 and alts[0] == [(C.NOT_LITERAL, 92)] and alts[1] == [(C.AT, C.AT_BEGINNING)])
        if ok:
            if not (repl.startswith("\\1") and "\\" not in repl[2:]):
                tr.bad(node, "the replacement template of this `re.subn` must be `\\1` followed by plain text")
            return ("bracket", lit_of(tree[1]), repl[2:])
    # shape 2:  one character class, replacement ""
    if len(tree) == 1 and tree[0][0] == C.IN:
        if repl != "":
            tr.bad(node, "a character-class `re.subn` is only supported with the replacement \"\" (deletion)")
        items = list(tree[0][1])
        neg = False
        if items and items[0][0] == C.NEGATE:
            neg = True
            items = items[1:]
        out = []
        cats = {C.CATEGORY_DIGIT: ".digit", C.CATEGORY_NOT_DIGIT: ".notDigit", C.CATEGORY_SPACE: ".space",
                C.CATEGORY_NOT_SPACE: ".notSpace", C.CATEGORY_WORD: ".word", C.CATEGORY_NOT_WORD: ".notWord"}
        for op, av in items:
            if op == C.LITERAL:
                out.append("ClsItem.ch %s" % lean_char(chr(av)))
            elif op == C.RANGE:
                out.append("ClsItem.range %s %s" % (lean_char(chr(av[0])), lean_char(chr(av[1]))))
            elif op == C.CATEGORY and av in cats:
                out.append("ClsItem%s" % cats[av])
            else:
                tr.bad(node, "character class item %s is outside the subset" % (op,))
        return ("delcls", neg, out)
    tr.bad(node, "regex literal %r is not one of the shapes `([^\\\\]|^)<char>` / `[<class>]` known to the translator" % pat)


# ----------------------------------------------------------------------------------
# the translator of one function
# ----------------------------------------------------------------------------------
class PatTranslator(TF.FuncTranslator):
    def __init__(self, spec, sources, done, raises=False):
        TF.FuncTranslator.__init__(self, spec, sources)
        self.done = done              # python function name -> Info | Exception
        self.raises = raises
        self.used_globals = set()
        self.uses_fuel = False
        self.callee_imports = []
        self.loop_b = []              # `break` continuations (None inside a `for`)
        self.is_generator = False
        self.module_tree = None

    # -- small helpers ---------------------------------------------------------------------
    def raising(self, node):
        """this construct can raise (or run out of fuel): the function must be Option-valued"""
        if not self.raises:
            raise _Restart()

    def hoist(self, node, base, opt_term):
        if self.hoists is None:
            self.bad(node, "an expression that can raise is only supported inside an assignment, return, yield, "
                           "loop iterable or if-test")
        v = self.fresh(base)
        self.hoists.append((v, opt_term))
        return v

    def int_expr(self, node, env):
        a, ta = self.expr(node, env)
        if not is_intlike(ta):
            self.bad(node, "an integer is expected here, not %r" % (ta,))
        return self.coerce(a, ta, INT, node)

    # -- types ------------------------------------------------------------------------------
    def record(self, name):
        if name in MY_RECORDS and name not in self.records:
            d = MY_RECORDS[name]
            fname, cls = d["source"]
            fields = []
            for f, ann in self.src.class_fields(fname, cls, self.fn):
                if ann not in MY_ANNOTATIONS:
                    self.bad(None, "field %s.%s: annotation %s has no type mapping" % (cls, f, ann))
                fields.append((f, lean_ident(f), MY_ANNOTATIONS[ann]))
            r = dict(d)
            r["fields"] = fields
            r["pyorder"] = [f for f, _, _ in fields]
            self.records[name] = r
        if name in self.records:
            return self.records[name]
        return TF.FuncTranslator.record(self, name)

    def lean_type(self, t):
        k = t[0]
        if k == "dict":
            return "List (%s × %s)" % (self.lean_type(t[1]), self.lean_type(t[2]))
        if k == "set":
            if t[1] is None:
                return "List _"
            inner = self.lean_type(t[1])
            return "List (%s)" % inner if " " in inner else "List " + inner
        if k == "re":
            return "Re"
        if k == "rec" and t[1] in MY_RECORDS:
            return MY_RECORDS[t[1]]["lean"]
        if k == "opt":
            inner = self.lean_type(t[1])
            return "Option (%s)" % inner if " " in inner else "Option " + inner
        if k == "list" and t[1] is not None:
            inner = self.lean_type(t[1])
            return "List (%s)" % inner if " " in inner else "List " + inner
        if k == "tuple":
            return "(" + " × ".join(self.lean_type(x) for x in t[1]) + ")"
        return TF.FuncTranslator.lean_type(self, t)

    def unify(self, a, b):
        if a[0] == "set" and b[0] == "set":
            if a[1] is None:
                return b
            if b[1] is None:
                return a
            u = self.unify(a[1], b[1])
            return SET(u) if u else None
        if a[0] == "dict" and b[0] == "dict":
            return a if a == b else None
        return TF.FuncTranslator.unify(self, a, b)

    def coerce(self, lean, frm, to, node=None):
        if to[0] == "set" and frm[0] == "set" and (frm[1] is None or frm[1] == to[1]):
            return lean
        return TF.FuncTranslator.coerce(self, lean, frm, to, node)

    def orderable(self, t):
        if t in (INT, NAT, STR):
            return True
        if t[0] == "tuple":
            return all(self.orderable(x) for x in t[1])
        return False

    def truthy_of(self, lean, t, node):
        if t[0] in ("set", "dict"):
            return "(!%s.isEmpty)" % lean
        if t == RE:
            return "true"
        return TF.FuncTranslator.truthy_of(self, lean, t, node)

    def annotation_type(self, ann):
        """a container annotation (`typ.Set[str]` ...) or None when it is not understood"""
        txt = ast.unparse(ann).replace("typing.", "typ.")
        simple = {"str": STR, "int": INT, "bool": BOOL}
        if txt in simple:
            return simple[txt]
        if isinstance(ann, ast.Subscript):
            head = ast.unparse(ann.value).replace("typing.", "typ.")
            args = list(ann.slice.elts) if isinstance(ann.slice, ast.Tuple) else [ann.slice]
            ts = [self.annotation_type(a) for a in args]
            if any(t is None for t in ts):
                return None
            if head in ("typ.Set", "set") and len(ts) == 1:
                return SET(ts[0])
            if head in ("typ.List", "list") and len(ts) == 1:
                return LIST(ts[0])
            if head in ("typ.Dict", "dict") and len(ts) == 2:
                return DICT(ts[0], ts[1])
            if head in ("typ.Tuple", "tuple") and len(ts) >= 2:
                return TUP(*ts)
        return None

    # -- expressions ---------------------------------------------------------------------------
    def expr(self, node, env):
        if isinstance(node, ast.Name) and node.id not in env and node.id in GLOBALS:
            self.check_global(node.id, node)
            self.used_globals.add(node.id)
            g = GLOBALS[node.id]
            return g["lean"], g["type"]
        if isinstance(node, ast.JoinedStr):
            return self.fstring(node, env)
        if isinstance(node, ast.Subscript):
            return self.subscript(node, env)
        if isinstance(node, ast.BoolOp):
            return self.short_circuit(node, env, self.bool_leaf), BOOL
        if isinstance(node, ast.ListComp):
            return self.listcomp(node, env)
        return TF.FuncTranslator.expr(self, node, env)

    def check_global(self, name, node):
        """the table must be bound exactly once at module level (assignment or import)"""
        _, tree = self.src.module(self.spec["file"])
        n = 0
        for st in tree.body:
            if isinstance(st, ast.Assign):
                n += sum(1 for t in st.targets if isinstance(t, ast.Name) and t.id == name)
            elif isinstance(st, ast.AnnAssign):
                n += 1 if isinstance(st.target, ast.Name) and st.target.id == name else 0
            elif isinstance(st, ast.ImportFrom):
                n += sum(1 for a in st.names if (a.asname or a.name) == name)
            elif isinstance(st, (ast.AugAssign, ast.Delete)):
                if name in ast.unparse(st):
                    self.bad(node, "module-level table `%s` is modified after its definition" % name)
        if n != 1:
            self.bad(node, "module-level table `%s` is bound %d times at module level" % (name, n))

    def fstring(self, node, env):
        parts = []
        for v in node.values:
            if isinstance(v, ast.Constant) and isinstance(v.value, str):
                if v.value:
                    parts.append(lean_str(v.value))
            elif isinstance(v, ast.FormattedValue):
                if v.conversion != -1 or v.format_spec is not None:
                    self.bad(node, "f-string conversions / format specs are outside the subset")
                a, ta = self.expr(v.value, env)
                if ta == STR:
                    parts.append(a)
                elif ta in (NAT, LIT):
                    parts.append("(natToStr %s)" % a)
                elif ta == INT:
                    parts.append("(PyP.intToStr %s)" % a)
                else:
                    self.bad(node, "f-string field of type %r" % (ta,))
            else:
                self.bad(node, "f-string component %s" % type(v).__name__)
        if not parts:
            return "([] : Str)", STR
        return "(" + " ++ ".join(parts) + ")", STR

    def subscript(self, node, env):
        val, t = self.expr(node.value, env)
        sl = node.slice
        if t[0] == "tuple":
            if not (isinstance(sl, ast.Constant) and isinstance(sl.value, int) and not isinstance(sl.value, bool)):
                self.bad(node, "only constant subscripts of known tuples are supported")
            i, n = sl.value, len(t[1])
            if i < 0:
                i += n
            if not 0 <= i < n:
                self.bad(node, "tuple index out of range")
            return "%s%s" % (val, ".2" * i + (".1" if i < n - 1 else "")), t[1][i]
        if t == STR and isinstance(sl, ast.Slice):
            if sl.step is not None:
                self.bad(node, "slices with a step are outside the subset")
            lo = self.int_expr(sl.lower, env) if sl.lower is not None else None
            hi = self.int_expr(sl.upper, env) if sl.upper is not None else None
            if lo is not None and hi is not None:
                return "(PyP.slice %s %s %s)" % (val, lo, hi), STR
            if lo is not None:
                return "(PyP.sliceFrom %s %s)" % (val, lo), STR
            if hi is not None:
                return "(PyP.sliceTo %s %s)" % (val, hi), STR
            return val, STR
        if t == STR:
            idx = self.int_expr(sl, env)
            self.raising(node)          # IndexError
            return self.hoist(node, "c", "(PyP.getItem %s %s)" % (val, idx)), STR
        if t[0] == "dict":
            k, tk = self.expr(sl, env)
            k = self.coerce(k, tk, t[1], node)
            self.raising(node)          # KeyError
            term = "(lookup %s %s)" % (k, val) if t[1] == STR else "(PyP.dictGet %s %s)" % (val, k)
            return self.hoist(node, "v", term), t[2]
        self.bad(node, "subscript on a value of type %r" % (t,))

    def bool_leaf(self, node, env):
        a, ta = self.expr(node, env)
        if ta != BOOL:
            self.bad(node, "`and`/`or` used as a VALUE needs bool operands (in a test position any type is fine)")
        return a

    def short_circuit(self, node, env, leaf):
        """`a and b` / `a or b` with Python's evaluation order: an operand that can raise is evaluated
        only when the operands before it did not decide the result"""
        is_and = isinstance(node.op, ast.And)

        def go(values):
            a = leaf(values[0], env)
            if len(values) == 1:
                return a
            saved = self.hoists
            self.hoists = [] if saved is not None else None
            try:
                b = go(values[1:])
                hs = self.hoists
            finally:
                self.hoists = saved
            if not hs:
                return "(%s %s %s)" % (a, "&&" if is_and else "||", b)
            inner = "(some %s)" % b
            for name, e in reversed(hs):
                inner = "(match %s with\n  | none => none\n  | some %s => %s)" % (e, name, _arm(inner))
            if is_and:
                term = "(if %s then %s else (some false))" % (a, _nl(inner))
            else:
                term = "(if %s then (some true) else %s)" % (a, _nl(inner))
            return self.hoist(node, "b", term)
        return go(list(node.values))

    def truthy(self, node, env):
        if isinstance(node, ast.BoolOp):
            return self.short_circuit(node, env, self.truthy)
        return TF.FuncTranslator.truthy(self, node, env)

    def compare1(self, op, ln, rn, env, node):
        if isinstance(op, (ast.In, ast.NotIn)):
            neg = "!" if isinstance(op, ast.NotIn) else ""
            a, ta = self.expr(ln, env)
            if isinstance(rn, (ast.Tuple, ast.List)):
                items = [self.expr(e, env) for e in rn.elts]
                t = ta
                for _, ti in items:
                    t = self.unify(t, ti) if t is not None else None
                if t is None:
                    self.bad(node, "`in` against a literal with elements of another type")
                if t == LIT:
                    t = INT
                if not items:
                    return "true" if neg else "false"
                return "(%sList.elem %s [%s])" % (neg, self.coerce(a, ta, t, node),
                                                 ", ".join(self.coerce(p, pt, t, node) for p, pt in items))
            b, tb = self.expr(rn, env)
            if ta == STR and tb == STR:
                return "(%sisInfix %s %s)" % (neg, a, b)
            if tb[0] in ("list", "set"):
                if tb[1] is None:
                    return "true" if neg else "false"
                return "(%sList.elem %s %s)" % (neg, self.coerce(a, ta, tb[1], node), b)
            if tb[0] == "dict":
                k = self.coerce(a, ta, tb[1], node)
                if tb[1] == STR:
                    return "(%s(lookup %s %s).isSome)" % (neg, k, b)
                return "(%sPyP.dictHas %s %s)" % (neg, b, k)
            self.bad(node, "`in` on %r and %r" % (ta, tb))
        return TF.FuncTranslator.compare1(self, op, ln, rn, env, node)

    def listcomp(self, node, env):
        if len(node.generators) != 1 or node.generators[0].ifs or node.generators[0].is_async:
            self.bad(node, "only `[e for x in xs]` with one plain generator")
        gen = node.generators[0]
        xs, et = self.iterable(gen.iter, env)
        x = self.fresh("it")
        binds = []
        self.destructure(gen.target, x, et, binds, node)
        env2 = dict(env)
        lets = []
        for name, path, ty in binds:
            env2[name] = Var(lean_ident(name), ty)
            lets.append("let %s := %s;" % (lean_ident(name), path))
        saved = self.hoists
        self.hoists = []
        try:
            v, vt = self.expr(node.elt, env2)
            hs = self.hoists
        finally:
            self.hoists = saved
        if vt == LIT:
            vt = INT
        body = "\n".join(lets + [v])
        if not hs:
            return "(List.map (fun (%s : %s) =>\n%s) %s)" % (x, self.lean_type(et), indent(body, 4), xs), LIST(vt)
        inner = "(some %s)" % v
        for name, e in reversed(hs):
            inner = "(match %s with\n  | none => none\n  | some %s => %s)" % (e, name, _arm(inner))
        inner = "\n".join(lets + [inner])
        term = "(PyP.mapM (fun (%s : %s) =>\n%s) %s)" % (x, self.lean_type(et), indent(inner, 4), xs)
        return self.hoist(node, "l", term), LIST(vt)

    # -- calls ------------------------------------------------------------------------------------
    def call(self, node, env):
        f = node.func
        fname = ast.unparse(f)
        if fname in MY_CONSTRUCTORS:
            return self.construct(node, env, MY_CONSTRUCTORS[fname][1])
        if fname.startswith("re."):
            if node.keywords:
                self.bad(node, "`%s` with keyword arguments (flags / count) is outside the subset" % fname)
            if fname == "re.subn":
                return self.re_subn(node, env)
            if fname == "re.compile":
                if len(node.args) != 1:
                    self.bad(node, "`re.compile` with flags: the model's regex semantics (`parseRe`, `Re.m`) has no flags")
                a, ta = self.expr(node.args[0], env)
                if ta != STR:
                    self.bad(node, "`re.compile` of a value of type %r" % (ta,))
                self.raising(node)      # re.error
                return self.hoist(node, "re", "(parseRe %s)" % a), RE
            self.bad(node, "call of `%s` is not in the whitelist" % fname)
        if node.keywords and fname in ("set", "dict", "list", "len") or \
                (node.keywords and fname in CALLEES):
            self.bad(node, "keyword arguments")
        if fname == "set" and not node.args:
            return "[]", SET(None)
        if fname == "dict" and len(node.args) == 1:
            a, ta = self.expr(node.args[0], env)
            if not (ta[0] == "list" and ta[1] is not None and ta[1][0] == "tuple" and len(ta[1][1]) == 2):
                self.bad(node, "dict() of a value of type %r (a list / generator of pairs is expected)" % (ta,))
            return "(PyP.dictOfPairs %s)" % a, DICT(ta[1][1][0], ta[1][1][1])
        if fname == "list" and len(node.args) == 1:
            a, ta = self.expr(node.args[0], env)
            if ta[0] != "list":
                self.bad(node, "list() of a value of type %r" % (ta,))
            return a, ta
        if fname == "sorted" and len(node.args) == 1:
            # `sorted(xs)`, `sorted(xs, key=len[, reverse=...])`: the same stable sorts as `xs.sort(...)`;
            # a dict iterates over its keys
            a, ta = self.expr(node.args[0], env)
            if ta[0] == "dict":
                a, ta = "(List.map Prod.fst %s)" % a, LIST(ta[1])
            if not (ta[0] == "list" and ta[1] is not None):
                self.bad(node, "sorted() of a value of type %r" % (ta,))
            return self.sort_term(a, ta, node.keywords, node, "sorted")
        if fname == "len" and len(node.args) == 1:
            a, ta = self.expr(node.args[0], env)
            if ta == STR or ta[0] in ("list", "set", "dict"):
                return "%s.length" % a, NAT
            self.bad(node, "len() of %r" % (ta,))
        if fname in CALLEES:
            return self.callee(node, env, fname)
        if isinstance(f, ast.Attribute) and f.attr in ("items", "keys", "find", "startswith", "replace"):
            if node.keywords:
                self.bad(node, "keyword arguments")
            m = f.attr
            recv, tr = self.expr(f.value, env)
            if m == "items" and tr[0] == "dict" and not node.args:
                return recv, LIST(TUP(tr[1], tr[2]))
            if m == "keys" and tr[0] == "dict" and not node.args:
                return "(List.map Prod.fst %s)" % recv, LIST(tr[1])
            if m == "find" and tr == STR and len(node.args) in (1, 2):
                a, ta = self.expr(node.args[0], env)
                if ta != STR:
                    self.bad(node, "str.find of a value of type %r" % (ta,))
                start = self.int_expr(node.args[1], env) if len(node.args) == 2 else "0"
                return "(PyP.find %s %s %s)" % (recv, a, start), INT
            if m == "startswith" and tr == STR and len(node.args) == 1:
                a, ta = self.expr(node.args[0], env)
                if ta != STR:
                    self.bad(node, "str.startswith of a value of type %r" % (ta,))
                return "(startsWith %s %s)" % (recv, a), BOOL
            if m == "replace" and tr == STR and len(node.args) == 2:
                a, ta = self.expr(node.args[0], env)
                b, tb = self.expr(node.args[1], env)
                if ta != STR or tb != STR:
                    self.bad(node, "str.replace with non-str arguments")
                if isinstance(node.args[0], ast.Constant) and node.args[0].value != "":
                    return "(replaceAll %s %s %s)" % (a, b, recv), STR
                # a variable pattern may be empty: the faithful primitive (Python inserts between all characters)
                return "(PyP.replace %s %s %s)" % (a, b, recv), STR
            self.bad(node, "method `%s` on a value of type %r" % (m, tr))
        return TF.FuncTranslator.call(self, node, env)

    def construct(self, node, env, name):
        r = self.record(name)
        fields = r["fields"]
        if len(node.args) + len(node.keywords) != len(fields):
            self.bad(node, "constructor needs all %d fields" % len(fields))
        vals = {}
        for (f_, path, ft), a in zip(fields, node.args):
            vals[f_] = a
        for kw in node.keywords:
            if kw.arg is None or kw.arg in vals or kw.arg not in [x for x, _, _ in fields]:
                self.bad(node, "bad keyword `%s`" % kw.arg)
            vals[kw.arg] = kw.value
        items = []
        for f_, path, ft in fields:
            v, vt = self.expr(vals[f_], env)
            items.append("%s := %s" % (path, self.coerce(v, vt, ft, vals[f_])))
        return "({ " + ", ".join(items) + " } : %s)" % r["lean"], REC(name)

    def re_subn(self, node, env):
        if len(node.args) != 3:
            self.bad(node, "`re.subn(pattern, repl, string)` with exactly three arguments (no count / flags)")
        pat, repl = node.args[0], node.args[1]
        if not (isinstance(pat, ast.Constant) and isinstance(pat.value, str)
                and isinstance(repl, ast.Constant) and isinstance(repl.value, str)):
            self.bad(node, "`re.subn` needs a literal regex and a literal replacement")
        s, ts = self.expr(node.args[2], env)
        if ts != STR:
            self.bad(node, "`re.subn` on a value of type %r" % (ts,))
        kind = parse_subn_literals(self, node, pat.value, repl.value)
        if kind[0] == "bracket":
            return "(subBracket %s %s %s)" % (lean_char(kind[1]), lean_str(kind[2]), s), TUP(STR, NAT)
        return "(PyP.subnDeleteCls %s [%s] %s)" % ("true" if kind[1] else "false", ", ".join(kind[2]), s), TUP(STR, NAT)

    def callee(self, node, env, pyname):
        info = self.done.get(pyname)
        if info is None:
            self.bad(node, "callee `%s` is not translated before its caller" % pyname)
        if isinstance(info, Exception):
            self.bad(node, "callee `%s` is itself untranslatable (%s)" % (pyname, info))
        cspec = info.spec
        if cspec.get("generator"):
            pass        # the generator is consumed eagerly (no side effects): a list
        params = cspec["params"]
        if len(node.args) > len(params):
            self.bad(node, "too many arguments for `%s`" % pyname)
        args = []
        for i, (pn, pt) in enumerate(params):
            if i < len(node.args):
                a, ta = self.expr(node.args[i], env)
                args.append(self.coerce(a, ta, pt, node.args[i]))
            elif pt[0] == "opt":
                args.append("none")          # `= None` default (checked when the callee was translated)
            else:
                self.bad(node, "missing argument `%s` of `%s`" % (pn, pyname))
        for g in info.globals:
            self.used_globals.add(g)
        if info.uses_fuel:
            self.uses_fuel = True
        if cspec["name"] not in self.callee_imports:
            self.callee_imports.append(cspec["name"])
        term = "(GenF.%s %s)" % (cspec["name"], " ".join(
            [GLOBALS[g]["lean"] for g in info.globals] + (["fuel"] if info.uses_fuel else []) + args))
        if info.raises:
            self.raising(node)
            return self.hoist(node, "r", term), cspec["ret"]
        return term, cspec["ret"]

    # -- statements ---------------------------------------------------------------------------------
    def walk_same_loop(self, node, top=True):
        """the nodes of a statement, not descending into nested loops / functions"""
        yield node
        for child in ast.iter_child_nodes(node):
            if isinstance(child, (ast.For, ast.While, ast.FunctionDef, ast.Lambda)):
                continue
            for n in self.walk_same_loop(child, False):
                yield n

    def may_raise(self, node):
        """syntactic over-approximation: can evaluating this statement / expression end the function early
        with `none` (exception, fuel)?"""
        for n in ast.walk(node):
            if isinstance(n, (ast.While, ast.Raise)):
                return True
            if isinstance(n, ast.Subscript) and not isinstance(n.slice, ast.Slice):
                if not (isinstance(n.slice, ast.Constant) and isinstance(n.slice.value, int)):
                    return True
                if isinstance(n.value, ast.Name) and n.value.id in self.str_names:
                    return True
            if isinstance(n, ast.Call):
                fn = ast.unparse(n.func)
                if fn == "re.compile":
                    return True
                if fn in CALLEES:
                    info = self.done.get(fn)
                    if info is None or isinstance(info, Exception) or info.raises:
                        return True
                if TF.CONSTRUCTORS.get(fn, ("", ""))[0] == "enum":
                    return True
        return False

    def contains_exit(self, stmts, allow_continue=False):
        for st in stmts:
            for n in ast.walk(st):
                if isinstance(n, ast.Return):
                    return True
            if self.may_raise(st):
                return True
            for n in self.walk_same_loop(st):
                if isinstance(n, ast.Break):
                    return True
                if isinstance(n, ast.Continue) and not allow_continue:
                    return True
        return False

    def block(self, stmts, env, k):
        if not stmts:
            return k(env)
        st, rest = stmts[0], stmts[1:]

        def kr(e):
            return self.block(rest, e, k)
        if self.is_dropped(st):
            return kr(env)
        if isinstance(st, ast.While):
            return self.while_stmt(st, rest, env, k)
        if isinstance(st, ast.Break):
            if not self.loop_b or self.loop_b[-1] is None:
                self.bad(st, "`break` is only supported directly inside a `while True:` loop")
            return self.loop_b[-1](env)
        if isinstance(st, ast.Raise):
            self.raising(st)
        if isinstance(st, ast.Return) and self.is_generator:
            if st.value is not None:
                self.bad(st, "`return value` inside a generator")
            return self.ret(None, env, st)
        if isinstance(st, ast.Expr) and isinstance(st.value, ast.Yield):
            if not self.is_generator:
                self.bad(st, "`yield` in a function the signature table does not list as a generator")
            if st.value.value is None:
                self.bad(st, "bare `yield`")
            return self.assign("yielded", lambda: self.append_value("yielded", st.value.value, env, st), env, kr, st)
        if isinstance(st, ast.Expr) and isinstance(st.value, (ast.YieldFrom, ast.Await)):
            self.bad(st, "`yield from` / `await`")
        if (isinstance(st, ast.Expr) and isinstance(st.value, ast.Call) and isinstance(st.value.func, ast.Attribute)
                and isinstance(st.value.func.value, ast.Name) and st.value.func.attr in ("add", "sort")):
            c = st.value
            name = c.func.value.id
            if name not in env:
                self.bad(st, "unknown name `%s`" % name)
            if c.func.attr == "add":
                return self.assign(name, lambda: self.set_add(name, c, env, st), env, kr, st)
            return self.assign(name, lambda: self.list_sort(name, c, env, st), env, kr, st)
        if isinstance(st, ast.Assign) and len(st.targets) == 1 and isinstance(st.targets[0], (ast.Tuple, ast.List)):
            return self.tuple_assign(st, env, kr)
        if isinstance(st, ast.AnnAssign) and isinstance(st.target, ast.Name) and st.value is not None:
            at = self.annotation_type(st.annotation)

            def compute():
                v, t = self.expr(st.value, env)
                # the annotation only REFINES a container whose element type is not known yet
                if at is not None and t[0] in ("list", "set") and t[1] is None and at[0] == t[0]:
                    return "(%s : %s)" % (v, self.lean_type(at)), at
                return v, t
            return self.assign(st.target.id, compute, env, kr, st)
        return TF.FuncTranslator.block(self, stmts, env, k)

    def append_value(self, name, value_node, env, st):
        lst = env[name]
        v, t = self.expr(value_node, env)
        et = t if lst.type[1] is None else self.unify(lst.type[1], t)
        if et is None or (lst.type[1] is not None and et != lst.type[1]):
            self.bad(st, "a %r is added to a list of %r" % (t, lst.type[1]))
        if et == LIT:
            et = INT
        return "(%s ++ [%s])" % (lst.lean, self.coerce(v, t, et, st)), LIST(et)

    def set_add(self, name, c, env, st):
        s = env[name]
        if s.type[0] != "set" or len(c.args) != 1 or c.keywords:
            self.bad(st, "`.add` on something that is not a set variable")
        v, t = self.expr(c.args[0], env)
        et = t if s.type[1] is None else self.unify(s.type[1], t)
        if et is None or (s.type[1] is not None and et != s.type[1]):
            self.bad(st, "a %r is added to a set of %r" % (t, s.type[1]))
        if et == LIT:
            et = INT
        return "(PyP.setAdd %s %s)" % (s.lean, self.coerce(v, t, et, st)), SET(et)

    def list_sort(self, name, c, env, st):
        lst = env[name]
        if lst.type[0] != "list" or lst.type[1] is None or c.args:
            self.bad(st, "`.sort` on something that is not a list variable")
        return self.sort_term(lst.lean, lst.type, c.keywords, st, ".sort")

    def sort_term(self, lean, typ_, keywords, st, what):
        """`xs.sort(**kw)` / `sorted(xs, **kw)` on a list value: (lean, type)"""
        key, reverse = None, False
        for kw in keywords:
            if kw.arg == "key":
                if not (isinstance(kw.value, ast.Name) and kw.value.id == "len"):
                    self.bad(st, "`%s(key=...)`: only `key=len`" % what)
                key = "len"
            elif kw.arg == "reverse":
                if not (isinstance(kw.value, ast.Constant) and isinstance(kw.value.value, bool)):
                    self.bad(st, "`%s(reverse=...)` needs a literal bool" % what)
                reverse = kw.value.value
            else:
                self.bad(st, "`%s` keyword `%s`" % (what, kw.arg))
        if key == "len":
            if not (typ_[1] == STR or typ_[1][0] in ("list", "set", "dict")):
                self.bad(st, "`key=len` on elements of type %r" % (typ_[1],))
            prim = "PyP.sortByKeyDesc" if reverse else "PyP.sortByKeyAsc"
            return "(%s List.length %s)" % (prim, lean), typ_
        if not self.orderable(typ_[1]):
            self.bad(st, "`%s()` of elements of type %r" % (what, typ_[1]))
        if reverse:
            self.bad(st, "`%s(reverse=True)` without `key=len`" % what)
        return "(PyP.sorted %s)" % lean, typ_

    def destructure(self, target, base, t, binds, at):
        if isinstance(target, ast.Name):
            if target.id != "_":
                binds.append((target.id, base, t))
            return
        if isinstance(target, (ast.Tuple, ast.List)):
            if t[0] != "tuple" or len(t[1]) != len(target.elts):
                self.bad(at, "cannot unpack a value of type %r into %d targets" % (t, len(target.elts)))
            n = len(t[1])
            for i, (el, et) in enumerate(zip(target.elts, t[1])):
                self.destructure(el, base + ".2" * i + (".1" if i < n - 1 else ""), et, binds, at)
            return
        self.bad(at, "assignment target %s" % type(target).__name__)

    def tuple_assign(self, st, env, kr):
        def cont(vt):
            v, t = vt
            p = self.fresh("p")
            binds = []
            self.destructure(st.targets[0], p, t, binds, st)
            env2 = dict(env)
            lines = ["let %s := %s;" % (p, v)]
            for name, path, ty in binds:
                env2[name] = Var(lean_ident(name), ty)
                lines.append("let %s := %s;" % (lean_ident(name), path))
            return "\n".join(lines) + "\n" + kr(env2)
        return self.with_hoists(lambda: self.expr(st.value, env), cont)

    def if_stmt(self, st, rest, env, k):
        if self.may_raise(st.test):
            # evaluate the test first (its exception must not be lost), then branch on a bool
            tmp = self.fresh("test")
            new_if = ast.copy_location(ast.If(test=ast.Name(id=tmp, ctx=ast.Load()), body=st.body, orelse=st.orelse), st)
            ast.fix_missing_locations(new_if)

            def k2(e):
                return TF.FuncTranslator.if_stmt(self, new_if, rest, e, k)
            return self.assign(tmp, lambda: (self.truthy(st.test, env), BOOL), env, k2, st)
        return TF.FuncTranslator.if_stmt(self, st, rest, env, k)

    def ret(self, node, env, at):
        if self.is_generator:
            if node is not None:
                self.bad(at, "`return value` inside a generator")
            v = env["yielded"]
            out = self.coerce(v.lean, v.type, self.spec["ret"], at)
            return "(some %s)" % out if self.raises else out
        return TF.FuncTranslator.ret(self, node, env, at)

    # -- loops ------------------------------------------------------------------------------------------
    def loop_state(self, st, env, env_in, run_body):
        """names and types of the loop-carried variables (assigned in the body, defined before the loop)"""
        saved = self.counter
        probes = []

        def pk(e):
            probes.append(e)
            return "?"
        run_body(env_in, pk, pk)
        self.counter = saved
        names = [n for n in self.changed_vars(env_in, probes) if n in env]
        st_types = {}
        for n in names:
            t = env[n].type
            for pe in probes:
                if n in pe:
                    t = self.unify(t, pe[n].type) if t is not None else None
            if t is None or (t[0] in ("list", "set") and t[1] is None):
                self.bad(st, "cannot type the loop-carried variable `%s`" % n)
            if t == LIT:
                t = INT
            st_types[n] = t
        env_body = dict(env_in)
        for n in names:
            env_body[n] = Var(lean_ident(n), st_types[n])
        probes2 = []
        saved = self.counter
        run_body(env_body, lambda e: (probes2.append(e), "?")[1], lambda e: (probes2.append(e), "?")[1])
        self.counter = saved
        for pe in probes2:
            for n in names:
                if self.unify(pe[n].type, st_types[n]) != st_types[n]:
                    self.bad(st, "the type of `%s` changes from iteration to iteration" % n)
        return names, st_types, env_body

    def state_tuple(self, names, st_types, at):
        def tup(e):
            vals = [self.coerce(e[n].lean, e[n].type, st_types[n], at) for n in names]
            return vals[0] if len(vals) == 1 else "(" + ", ".join(vals) + ")"
        return tup

    def state_binds(self, names, var):
        """`let a := st.1; let b := st.2.1; ...` (nothing for a single variable: the lambda binds it)"""
        n = len(names)
        if n == 1:
            return []
        return ["let %s := %s%s;" % (lean_ident(nm), var, ".2" * i + (".1" if i < n - 1 else ""))
                for i, nm in enumerate(names)]

    def state_type(self, names, st_types):
        tys = [self.lean_type(st_types[n]) for n in names]
        return tys[0] if len(tys) == 1 else "(" + " × ".join(tys) + ")"

    def while_stmt(self, st, rest, env, k):
        if st.orelse:
            self.bad(st, "`while ... else`")
        if not (isinstance(st.test, ast.Constant) and st.test.value is True):
            self.bad(st, "only `while True:` loops (left by `break`) are supported")
        self.raising(st)                  # running out of fuel
        self.uses_fuel = True
        body = [s for s in st.body if not self.is_dropped(s)]
        for s in body:
            for n in ast.walk(s):
                if isinstance(n, ast.Return):
                    self.bad(n, "`return` inside a `while True:` loop")

        def run_body(e, k_next, k_brk):
            self.loop_k.append(k_next)
            self.loop_b.append(k_brk)
            try:
                return self.block(body, e, k_next)
            finally:
                self.loop_k.pop()
                self.loop_b.pop()
        names, st_types, env_body = self.loop_state(st, env, env, run_body)
        if not names:
            self.bad(st, "a `while True:` loop without loop-carried variables")
        tup = self.state_tuple(names, st_types, st)
        step = run_body(env_body, lambda e: "(some (PyP.Step.next %s))" % tup(e),
                        lambda e: "(some (PyP.Step.brk %s))" % tup(e))
        sty = self.state_type(names, st_types)
        sv = lean_ident(names[0]) if len(names) == 1 else self.fresh("st")
        fn_body = "\n".join(self.state_binds(names, sv) + [step])
        loop = "(PyP.whileTrue (fun (%s : %s) =>\n%s)\n  fuel (%s : %s))" % (sv, sty, indent(fn_body, 4), tup(env), sty)
        env2 = dict(env)
        for n in names:
            env2[n] = Var(lean_ident(n), st_types[n])
        after = "\n".join(self.state_binds(names, sv) + [self.block(rest, env2, k)])
        return "(match %s with\n  | none => none\n  | some %s => %s)" % (loop, sv, _arm(after))

    def for_stmt(self, st, rest, env, k):
        if st.orelse:
            self.bad(st, "`for ... else`")
        body = [s for s in st.body if not self.is_dropped(s)]
        has_return = any(isinstance(n, ast.Return) for s in body for n in ast.walk(s))
        if has_return:
            if isinstance(st.target, ast.Name) and not self.is_generator:
                return TF.FuncTranslator.for_stmt(self, st, rest, env, k)      # the searching idiom of the base
            self.bad(st, "`return` inside this loop")

        def with_iter(xs_et):
            xs, et = xs_et
            x = self.fresh("it")
            binds = []
            self.destructure(st.target, x, et, binds, st)
            env_in = dict(env)
            lets = []
            for name, path, ty in binds:
                env_in[name] = Var(lean_ident(name), ty)
                lets.append("let %s := %s;" % (lean_ident(name), path))

            def run_body(e, k_next, k_brk=None):
                self.loop_k.append(k_next)
                self.loop_b.append(None)
                try:
                    return self.block(body, e, k_next)
                finally:
                    self.loop_k.pop()
                    self.loop_b.pop()
            loop_raises = any(self.may_raise(s) for s in body)
            names, st_types, env_body = self.loop_state(st, env, env_in, run_body)
            if not names:
                if loop_raises:
                    self.bad(st, "a loop that can raise but carries no state")
                return self.block(rest, env, k)
            tup = self.state_tuple(names, st_types, st)
            sty = self.state_type(names, st_types)
            sv = lean_ident(names[0]) if len(names) == 1 else self.fresh("st")
            env2 = dict(env)
            for n in names:
                env2[n] = Var(lean_ident(n), st_types[n])
            if loop_raises:
                self.raising(st)
                step = run_body(env_body, lambda e: "(some %s)" % tup(e))
                fn_body = "\n".join(self.state_binds(names, sv) + lets + [step])
                loop = "(PyP.forM (fun (%s : %s) (%s : %s) =>\n%s)\n  %s (%s : %s))" % (
                    sv, sty, x, self.lean_type(et), indent(fn_body, 4), xs, tup(env), sty)
                after = "\n".join(self.state_binds(names, sv) + [self.block(rest, env2, k)])
                return "(match %s with\n  | none => none\n  | some %s => %s)" % (loop, sv, _arm(after))
            step = run_body(env_body, tup)
            fn_body = "\n".join(self.state_binds(names, sv) + lets + [step])
            loop = "(List.foldl (fun (%s : %s) (%s : %s) =>\n%s)\n  (%s : %s) %s)" % (
                sv, sty, x, self.lean_type(et), indent(fn_body, 4), tup(env), sty, xs)
            after = "\n".join(self.state_binds(names, sv) + [self.block(rest, env2, k)])
            return "let %s := %s;\n%s" % (sv, loop, after)
        return self.with_hoists(lambda: self.iterable(st.iter, env), with_iter)

    # -- declarations -------------------------------------------------------------------------------------
    def decl(self, kind, name):
        if kind == "rec" and name in MY_RECORDS:
            r = self.record(name)
            fname, cls = r["source"]
            out = ["/-- `%s.%s` (NamedTuple), generated from the class definition -/" % (fname[:-3], cls)]
            out.append("structure %s where" % r["leanname"])
            for f, path, ft in r["fields"]:
                out.append("  %s : %s" % (path, self.lean_type(ft)))
            return "\n".join(out) + "\n"
        return TF.FuncTranslator.decl(self, kind, name)

    # -- the whole function ----------------------------------------------------------------------------------
    def translate(self):
        spec = self.spec
        src, node = self.src.find(spec["file"], ast.FunctionDef, spec["func"])
        if node is None:
            raise Untranslatable(self.fn, None, "function not found in %s" % spec["file"])
        self.source_text = ast.get_source_segment(src, node)
        for d in node.decorator_list:
            if ast.unparse(d) not in IDENTITY_DECORATORS:
                self.bad(node, "decorator `%s` is outside the subset" % ast.unparse(d))
        a = node.args
        if a.vararg or a.kwarg or a.kwonlyargs or a.posonlyargs:
            self.bad(node, "only plain positional parameters")
        pynames = [x.arg for x in a.args]
        if pynames != [p for p, _ in spec["params"]]:
            self.bad(node, "parameters are %s, the signature table expects %s" % (pynames, [p for p, _ in spec["params"]]))
        for d in a.defaults:
            if not (isinstance(d, ast.Constant) and d.value is None):
                self.bad(node, "only `= None` parameter defaults")
        ndef = len(a.defaults)
        for i, (p, t) in enumerate(spec["params"]):
            has_default = i >= len(pynames) - ndef
            if has_default and t[0] != "opt":
                self.bad(node, "parameter `%s` has a default but the signature table does not make it Optional" % p)
        for n in ast.walk(node):
            if isinstance(n, ast.Name) and n.id in RESERVED:
                self.bad(n, "the name `%s` is reserved by the translator" % n.id)
            if (isinstance(n, ast.Name) and isinstance(n.ctx, ast.Store) or isinstance(n, ast.arg)) and \
                    (n.id if isinstance(n, ast.Name) else n.arg) in ("len", "sorted", "list", "dict", "set", "int", "re"):
                self.bad(n, "a local name shadows a builtin the translator interprets")
            if isinstance(n, (ast.FunctionDef, ast.Lambda, ast.AsyncFunctionDef)) and n is not node:
                self.bad(n, "nested functions / lambdas")
            if isinstance(n, (ast.Global, ast.Nonlocal, ast.Try, ast.With)):
                self.bad(n, "statement form %s is outside the subset" % type(n).__name__)
        self.is_generator = any(isinstance(n, (ast.Yield, ast.YieldFrom)) for n in ast.walk(node))
        if self.is_generator != bool(spec.get("generator")):
            self.bad(node, "the function %s a generator, the signature table says otherwise"
                     % ("is" if self.is_generator else "is not"))
        # names bound to `str` parameters (for the syntactic may-raise test on constant subscripts)
        self.str_names = {p for p, t in spec["params"] if t == STR}
        decls = [self.decl(kind, name) for kind, name in spec.get("decls", [])]
        env = {}
        params = []
        for p, t in spec["params"]:
            if t[0] == "rec":
                self.record(t[1])
            env[p] = Var(lean_ident(p), t)
            params.append("(%s : %s)" % (lean_ident(p), self.lean_type(t)))
        prefix = ""
        if self.is_generator:
            yt = spec["ret"]
            env["yielded"] = Var("yielded", yt)
            prefix = "let yielded : %s := [];\n" % self.lean_type(yt)

        def fall_off(e):
            return self.ret(None, e, node)
        body = prefix + self.block(list(node.body), env, fall_off)
        rt = self.lean_type(spec["ret"])
        if self.raises:
            rt = "Option (%s)" % rt if " " in rt else "Option " + rt
        gl = [g for g in GLOBAL_ORDER if g in self.used_globals]
        gparams = ["(%s : %s)" % (GLOBALS[g]["lean"], self.lean_type(GLOBALS[g]["type"])) for g in gl]
        fparams = ["(fuel : Nat)"] if self.uses_fuel else []
        head = "def %s %s : %s :=" % (spec["name"], " ".join(gparams + fparams + params), rt)
        self.info = Info(spec, gl, self.uses_fuel, self.raises)
        return decls, head + "\n" + indent(body, 2) + "\n"


# ----------------------------------------------------------------------------------
# the trusted primitives (fixed text, written to Gen/PatternsPrims.lean)
# ----------------------------------------------------------------------------------
PRIMS_TEXT = r'''/- GENERATED by harness/translate_patterns.py (FIXED text: the trusted primitives the generated
   definitions of the group `patterns` are written in; documented in harness/TRANSLATE_PATTERNS.md).
   Do not edit. -/
import BumpverVerif.Model.V2Patterns
namespace BV.PyP

/-! ### control: `while True:` with explicit fuel, loops that can raise -/

/-- outcome of one iteration of a `while True:` body -/
inductive Step (σ : Type) where
  | brk (s : σ)       -- `break`
  | next (s : σ)      -- end of the body / `continue`

/-- `while True: body`.  `none` = an exception inside the body, or the fuel ran out (the ties prove
    `some …` for every sufficiently large fuel: the Python loop terminates). -/
def whileTrue {σ : Type} (body : σ → Option (Step σ)) : Nat → σ → Option σ
  | 0, _ => none
  | fuel + 1, s =>
    match body s with
    | none => none
    | some (.brk s') => some s'
    | some (.next s') => whileTrue body fuel s'

/-- `for x in xs: body` where the body can raise (`none`) -/
def forM {σ α : Type} (body : σ → α → Option σ) : List α → σ → Option σ
  | [], s => some s
  | x :: xs, s =>
    match body s x with
    | none => none
    | some s' => forM body xs s'

/-- `[f(x) for x in xs]` where `f` can raise -/
def mapM {α β : Type} (f : α → Option β) : List α → Option (List β)
  | [] => some []
  | x :: xs =>
    match f x with
    | none => none
    | some y =>
      match mapM f xs with
      | none => none
      | some ys => some (y :: ys)

/-! ### `str`: slices, indexing, find, replace -/

/-- a slice bound as Python normalises it: negative = from the end, clipped to `[0, n]` -/
def clamp (n : Nat) (i : Int) : Nat :=
  if i < 0 then (Int.ofNat n + i).toNat else min n i.toNat

/-- `s[i:]` -/
def sliceFrom (s : Str) (i : Int) : Str := s.drop (clamp s.length i)
/-- `s[:j]` -/
def sliceTo (s : Str) (j : Int) : Str := s.take (clamp s.length j)
/-- `s[i:j]` -/
def slice (s : Str) (i j : Int) : Str := (s.take (clamp s.length j)).drop (clamp s.length i)

/-- `s[i]` (a one-character string); `none` = IndexError.  Negative indices count from the end. -/
def getItem (s : Str) (i : Int) : Option Str :=
  let j : Int := if i < 0 then Int.ofNat s.length + i else i
  if j < 0 then none else (s[j.toNat]?).map (fun c => [c])

/-- `s.find(sub, start)`: absolute index of the first occurrence at or after `start`, `-1` when there is
    none (also when `start > len(s)`); a negative `start` counts from the end. -/
def find (s sub : Str) (start : Int) : Int :=
  let st : Nat := if start < 0 then (Int.ofNat s.length + start).toNat else start.toNat
  if st > s.length then -1
  else match findIdx sub (s.drop st) with
    | none => -1
    | some i => Int.ofNat (st + i)

/-- `s.replace(pat, rep)` for a pattern that may be EMPTY (Python then inserts `rep` before every
    character and at the end); for a non-empty pattern it is the model's `replaceAll` -/
def replace (pat rep s : Str) : Str :=
  if pat.isEmpty then rep ++ s.flatMap (fun c => c :: rep) else replaceAll pat rep s

/-- `str(i)` / `f"{i}"` of an int -/
def intToStr (i : Int) : Str :=
  if i < 0 then '-' :: natToStr i.natAbs else natToStr i.toNat

/-! ### `re.subn` with a single character class and the replacement "" -/

/-- `re.subn("[…]", "", s)`: every character the class matches is deleted; second component = number
    of deletions.  The class semantics is the model's (`ClsItem.matches`, Model/Regex.lean). -/
def subnDeleteCls (neg : Bool) (items : List ClsItem) (s : Str) : Str × Nat :=
  let hit (c : Char) : Bool := (items.any (·.matches c)) != neg
  (s.filter (fun c => !hit c), (s.filter hit).length)

/-! ### sets and dicts (insertion ordered, as CPython's) -/

/-- `s.add(x)` on a duplicate-free list -/
def setAdd {α : Type} [BEq α] (s : List α) (x : α) : List α := if s.contains x then s else s ++ [x]

/-- `d[k] = v`: an existing key keeps its position and gets the new value -/
def dictSet {κ ν : Type} [BEq κ] (k : κ) (v : ν) : List (κ × ν) → List (κ × ν)
  | [] => [(k, v)]
  | (k', v') :: rest => if k' == k then (k', v) :: rest else (k', v') :: dictSet k v rest

/-- `dict(pairs)` -/
def dictOfPairs {κ ν : Type} [BEq κ] (l : List (κ × ν)) : List (κ × ν) :=
  l.foldl (fun d kv => dictSet kv.1 kv.2 d) []

def dictGet {κ ν : Type} [BEq κ] (d : List (κ × ν)) (k : κ) : Option ν :=
  (d.find? (fun kv => kv.1 == k)).map (·.2)

def dictHas {κ ν : Type} [BEq κ] (d : List (κ × ν)) (k : κ) : Bool := (dictGet d k).isSome

/-! ### ordering: `<` on ints, strings and tuples; stable sorts -/

class PyOrd (α : Type) where
  lt : α → α → Bool

instance : PyOrd Int := ⟨fun a b => decide (a < b)⟩
instance : PyOrd Nat := ⟨fun a b => decide (a < b)⟩
instance : PyOrd Str := ⟨strLt⟩
/-- tuple comparison: the first components that differ decide -/
instance {α β : Type} [BEq α] [PyOrd α] [PyOrd β] : PyOrd (α × β) :=
  ⟨fun a b => if a.1 == b.1 then PyOrd.lt a.2 b.2 else PyOrd.lt a.1 b.1⟩

/-- insert after every element that is not greater (stability) -/
def insertSortedBy {α : Type} (lt : α → α → Bool) (x : α) : List α → List α
  | [] => [x]
  | y :: ys => if lt x y then x :: y :: ys else y :: insertSortedBy lt x ys

/-- `sorted(xs)` (stable) -/
def sorted {α : Type} [PyOrd α] (l : List α) : List α :=
  l.foldl (fun acc x => insertSortedBy PyOrd.lt x acc) []

/-- `xs.sort(key=key)` (stable) -/
def sortByKeyAsc {α : Type} (key : α → Nat) (l : List α) : List α :=
  l.foldl (fun acc x => insertSortedBy (fun a b => decide (key a < key b)) x acc) []

/-- `xs.sort(key=key, reverse=True)`: descending, elements with equal keys KEEP their original order -/
def sortByKeyDesc {α : Type} (key : α → Nat) (l : List α) : List α :=
  l.foldl (fun acc x => insertSortedBy (fun a b => decide (key a > key b)) x acc) []

end BV.PyP
'''


# ----------------------------------------------------------------------------------
# file generation
# ----------------------------------------------------------------------------------
def render(spec, sources, done):
    fname = "F_%s.lean" % spec["name"]
    where = "src/bumpver/%s" % spec["file"]
    tr = PatTranslator(spec, sources, done, raises=False)
    try:
        try:
            decls, body = tr.translate()
        except _Restart:
            tr = PatTranslator(spec, sources, done, raises=True)
            decls, body = tr.translate()
    except _Restart:       # pragma: no cover
        raise
    except Untranslatable as ex:
        text = getattr(tr, "source_text", None)
        lines = [
            "/- GENERATED by harness/translate_patterns.py. Do not edit.",
            "   source   : %s" % where,
            "   function : %s" % spec["func"],
            "   sha256   : %s" % (sha256(text) if text else "(function not found)"),
            "",
            "   UNTRANSLATABLE: %s" % str(ex).replace("-/", "- /"),
            "   (no definition is generated; the ties of %s cannot compile until this is resolved) -/" % spec["name"],
            "",
        ]
        done[spec["func"]] = ex
        return fname, "\n".join(lines), ex
    except Exception as ex:  # unreadable / unparsable source, or an internal error: never a silent success
        lines = [
            "/- GENERATED by harness/translate_patterns.py. Do not edit.",
            "   source   : %s" % where,
            "   function : %s" % spec["func"],
            "",
            "   UNTRANSLATABLE: the source could not be read/parsed/translated: %s: %s -/"
            % (type(ex).__name__, str(ex).replace("-/", "- /")),
            "",
        ]
        done[spec["func"]] = ex
        return fname, "\n".join(lines), ex
    done[spec["func"]] = tr.info
    lines = [
        "/- GENERATED by harness/translate_patterns.py from the Python AST. Do not edit.",
        "   source   : %s" % where,
        "   function : %s" % spec["func"],
        "   sha256   : %s  (of the function's source text)" % sha256(tr.source_text),
        "   tables   : %s" % (", ".join("%s = %s (instantiate with %s)" % (GLOBALS[g]["lean"], g, GLOBALS[g]["gen"])
                                        for g in tr.info.globals) or "none"),
        "   result   : %s -/" % ("Option: `none` = an exception (KeyError / IndexError / re.error)"
                                 + (" or the fuel of a `while True:` loop ran out" if tr.info.uses_fuel else "")
                                 if tr.info.raises else "total"),
    ]
    lines.append("import %s" % PRIMS)
    for c in tr.callee_imports:
        lines.append("import BumpverVerif.Gen.F_%s" % c)
    lines.append("set_option linter.unusedVariables false")
    lines.append("namespace BV.GenF")
    lines.append("")
    for d in decls:
        lines.append(d)
    lines.append("/-- `%s.%s` -/" % (spec["file"][:-3], spec["func"]))
    lines.append(body)
    lines.append("end BV.GenF")
    lines.append("")
    return fname, "\n".join(lines), None


def generate(report=None):
    """{filename: content} for lean/BumpverVerif/Gen/"""
    sources = Sources()
    out = {"PatternsPrims.lean": PRIMS_TEXT}
    done = {}
    for spec in FUNCS:
        fname, content, err = render(spec, sources, done)
        out[fname] = content
        if report is not None:
            report.append((spec["func"], fname, err))
    return out


def main():
    rep = []
    files = generate(rep)
    gen = os.path.join(os.path.dirname(HERE), "lean", "BumpverVerif", "Gen")
    if "--write" in sys.argv:
        for name, content in files.items():
            path = os.path.join(gen, name)
            old = open(path, encoding="utf-8").read() if os.path.exists(path) else None
            if old != content:
                with open(path, "w", encoding="utf-8") as f:
                    f.write(content)
                print("wrote", name)
    for func, fname, err in rep:
        print("%-28s %-28s %s" % (func, fname, "ok" if err is None else "UNTRANSLATABLE: %s" % err))
    if "--show" in sys.argv:
        for name, content in files.items():
            if name == "PatternsPrims.lean":
                continue
            print("=" * 20, name)
            print(content)
    return 0


if __name__ == "__main__":
    sys.exit(main())
