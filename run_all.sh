#!/bin/sh
# runs every claimed check (quick by default) and validates MANIFEST + evidence against the schemas
cd "$(dirname "$0")" || exit 2
tier="${1:-quick}"
rc=0
T=$(mktemp -d)
for id in $(python3 -c "import json;print(' '.join(c['property_id'] for c in json.load(open('MANIFEST.json'))['checks']))"); do
  ./check "$id" --tier "$tier" > "$T/$id.out" 2> "$T/$id.err"
  code=$?
  echo "$id exit=$code $(tail -1 $T/$id.err)"
  grep -h "VIOLATION" "$T/$id.out"
  [ $code -ne 0 ] && rc=1
done
/opt/veriftools/pyvenv/bin/python - <<'PY'
import json, jsonschema, glob
jsonschema.validate(json.load(open('MANIFEST.json')), json.load(open('/root/.vp/MANIFEST.schema.json')))
sch = json.load(open('/root/.vp/EVIDENCE.schema.json'))
for c in json.load(open('MANIFEST.json'))['checks']:
    ev = json.load(open(c['evidence_file']))
    jsonschema.validate(ev, sch)
    assert ev['coverage'].get('obligations', 0) >= 1 and ev['coverage'].get('discharged') == ev['coverage'].get('obligations'), c['property_id']
print("manifest and evidence valid")
PY
rm -rf "$T"
exit $rc
